// vh — the Go side of the /verif conformance checks: replays TLC-generated cases into the
// real go-ap/activitypub code (leg G) and records traces from seeded random drivers (leg V).
// It never decides a property: it only reports what the real code did, as JSON events that
// the TLA+ trace specifications judge.
package main

import (
	"bufio"
	"encoding/json"
	"fmt"
	"os"
	"path/filepath"
	"sort"
	"strconv"
)

type cmdFn func(args []string) error

var cmds = map[string]cmdFn{}

func register(name string, f cmdFn) { cmds[name] = f }

func main() {
	if len(os.Args) < 2 {
		names := make([]string, 0, len(cmds))
		for k := range cmds {
			names = append(names, k)
		}
		sort.Strings(names)
		fmt.Fprintln(os.Stderr, "usage: vh <cmd> args...; cmds:", names)
		os.Exit(2)
	}
	f, ok := cmds[os.Args[1]]
	if !ok {
		fmt.Fprintln(os.Stderr, "unknown command", os.Args[1])
		os.Exit(2)
	}
	if err := f(os.Args[2:]); err != nil {
		fmt.Fprintln(os.Stderr, "error:", err)
		os.Exit(3)
	}
}

func seed() int64 {
	s, err := strconv.ParseInt(os.Getenv("VERIF_SEED"), 10, 64)
	if err != nil {
		return 1
	}
	return s
}

type J = map[string]interface{}

// readNDJSON reads one JSON value per line.
func readNDJSON(path string, each func(raw []byte) error) error {
	f, err := os.Open(path)
	if err != nil {
		return err
	}
	defer f.Close()
	sc := bufio.NewScanner(f)
	sc.Buffer(make([]byte, 1<<20), 1<<28)
	for sc.Scan() {
		b := sc.Bytes()
		if len(b) == 0 {
			continue
		}
		cp := make([]byte, len(b))
		copy(cp, b)
		if err := each(cp); err != nil {
			return err
		}
	}
	return sc.Err()
}

type ndWriter struct {
	f *os.File
	w *bufio.Writer
	n int
}

func newNDWriter(path string) (*ndWriter, error) {
	f, err := os.Create(path)
	if err != nil {
		return nil, err
	}
	return &ndWriter{f: f, w: bufio.NewWriterSize(f, 1<<20)}, nil
}

func (w *ndWriter) Write(v interface{}) {
	b, err := json.Marshal(v)
	if err != nil {
		panic(err)
	}
	w.w.Write(b)
	w.w.WriteByte('\n')
	w.n++
}

func (w *ndWriter) Close() error {
	if err := w.w.Flush(); err != nil {
		return err
	}
	return w.f.Close()
}

func filepathGlob(p string) ([]string, error) { return filepath.Glob(p) }

func writeFile(path string, b []byte) error { return os.WriteFile(path, b, 0o644) }

func readFile(path string) ([]byte, error) { return os.ReadFile(path) }

func atoi(s string) int {
	n, err := strconv.Atoi(s)
	if err != nil {
		panic(err)
	}
	return n
}
