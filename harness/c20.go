package main

// C20: the nil matrix -- every helper x nil kind x position, observed with recover().
// Events for NilMatrixTrace.tla: {ev:"cell", h, nk, pos, class, cb, msg}

import (
	"encoding/json"
	"fmt"
	"reflect"
	"strings"

	ap "github.com/go-ap/activitypub"
)

func nilOfKind(nk string) ap.Item {
	if nk == "nil" {
		return nil
	}
	switch nk {
	case "*IRI":
		return (*ap.IRI)(nil)
	case "*IRIs":
		return (*ap.IRIs)(nil)
	case "*ItemCollection":
		return (*ap.ItemCollection)(nil)
	}
	return reflect.Zero(reflect.PtrTo(goTypes[strings.TrimPrefix(nk, "*")])).Interface().(ap.Item)
}

// cbClass classifies what a callback received when the input was nil
func cbClass(p interface{}) string {
	if p == nil {
		return "nil"
	}
	v := reflect.ValueOf(p)
	switch v.Kind() {
	case reflect.Ptr, reflect.Interface, reflect.Slice, reflect.Map:
		if v.IsNil() {
			return "nil"
		}
	}
	return "wild"
}

func boolClass(b bool) string {
	if b {
		return "true"
	}
	return "false"
}

func errClass(err error) string {
	if err != nil {
		return "error"
	}
	return "neutral"
}

func validNote() *ap.Object {
	return &ap.Object{ID: "https://example.com/n/1", Type: ap.NoteType, Name: ap.DefaultNaturalLanguageValue("n")}
}

// topHelpers: name -> func(nil item) (class, cb)
var topHelpers = map[string]func(it ap.Item) (string, string){}

func onHelper[T any](name string, f func(ap.Item, func(*T) error) error) {
	topHelpers[name] = func(it ap.Item) (string, string) {
		cb := "none"
		err := f(it, func(p *T) error { cb = cbClass(p); return nil })
		return errClass(err), cb
	}
}

func toHelper[T any](name string, f func(ap.Item) (*T, error)) {
	topHelpers[name] = func(it ap.Item) (string, string) {
		p, err := f(it)
		cb := "none"
		if err == nil {
			cb = cbClass(p) // the returned pointer plays the role of the callback argument
		}
		return errClass(err), cb
	}
}

func init() {
	topHelpers["IsNil"] = func(it ap.Item) (string, string) { return boolClass(ap.IsNil(it)), "none" }
	topHelpers["NotEmpty"] = func(it ap.Item) (string, string) { return boolClass(ap.NotEmpty(it)), "none" }
	topHelpers["ItemsEqual-nil"] = func(it ap.Item) (string, string) {
		return boolClass(ap.ItemsEqual(it, nil) && ap.ItemsEqual(nil, it)), "none"
	}
	topHelpers["ItemsEqual-self"] = func(it ap.Item) (string, string) { return boolClass(ap.ItemsEqual(it, it)), "none" }
	topHelpers["ItemsEqual-value"] = func(it ap.Item) (string, string) { return boolClass(ap.ItemsEqual(it, validNote())), "none" }
	topHelpers["ItemsEqual-value-rev"] = func(it ap.Item) (string, string) { return boolClass(ap.ItemsEqual(validNote(), it)), "none" }
	topHelpers["IsObject"] = func(it ap.Item) (string, string) { ap.IsObject(it); return "neutral", "none" }
	topHelpers["IsLink"] = func(it ap.Item) (string, string) { ap.IsLink(it); return "neutral", "none" }
	topHelpers["IsIRI"] = func(it ap.Item) (string, string) { ap.IsIRI(it); return "neutral", "none" }
	topHelpers["IsItemCollection"] = func(it ap.Item) (string, string) { ap.IsItemCollection(it); return "neutral", "none" }
	onHelper("OnObject", func(it ap.Item, f func(*ap.Object) error) error { return ap.OnObject(it, f) })
	onHelper("OnActor", func(it ap.Item, f func(*ap.Actor) error) error { return ap.OnActor(it, f) })
	onHelper("OnActivity", func(it ap.Item, f func(*ap.Activity) error) error { return ap.OnActivity(it, f) })
	onHelper("OnIntransitiveActivity", func(it ap.Item, f func(*ap.IntransitiveActivity) error) error {
		return ap.OnIntransitiveActivity(it, f)
	})
	onHelper("OnQuestion", func(it ap.Item, f func(*ap.Question) error) error { return ap.OnQuestion(it, f) })
	onHelper("OnLink", func(it ap.Item, f func(*ap.Link) error) error { return ap.OnLink(it, f) })
	onHelper("OnCollection", func(it ap.Item, f func(*ap.Collection) error) error { return ap.OnCollection(it, f) })
	onHelper("OnCollectionPage", func(it ap.Item, f func(*ap.CollectionPage) error) error { return ap.OnCollectionPage(it, f) })
	onHelper("OnOrderedCollection", func(it ap.Item, f func(*ap.OrderedCollection) error) error { return ap.OnOrderedCollection(it, f) })
	onHelper("OnOrderedCollectionPage", func(it ap.Item, f func(*ap.OrderedCollectionPage) error) error {
		return ap.OnOrderedCollectionPage(it, f)
	})
	onHelper("OnItemCollection", func(it ap.Item, f func(*ap.ItemCollection) error) error { return ap.OnItemCollection(it, f) })
	onHelper("OnIRIs", func(it ap.Item, f func(*ap.IRIs) error) error { return ap.OnIRIs(it, f) })
	onHelper("OnPlace", func(it ap.Item, f func(*ap.Place) error) error { return ap.OnPlace(it, f) })
	onHelper("OnProfile", func(it ap.Item, f func(*ap.Profile) error) error { return ap.OnProfile(it, f) })
	onHelper("OnRelationship", func(it ap.Item, f func(*ap.Relationship) error) error { return ap.OnRelationship(it, f) })
	onHelper("OnTombstone", func(it ap.Item, f func(*ap.Tombstone) error) error { return ap.OnTombstone(it, f) })
	topHelpers["OnCollectionIntf"] = func(it ap.Item) (string, string) {
		cb := "none"
		err := ap.OnCollectionIntf(it, func(c ap.CollectionInterface) error { cb = cbClass(c); return nil })
		return errClass(err), cb
	}
	topHelpers["OnItem"] = func(it ap.Item) (string, string) {
		cb := "none"
		err := ap.OnItem(it, func(i ap.Item) error { cb = cbClass(i); return nil })
		return errClass(err), cb
	}
	toHelper("ToObject", ap.ToObject)
	toHelper("ToActor", ap.ToActor)
	toHelper("ToActivity", ap.ToActivity)
	toHelper("ToIntransitiveActivity", ap.ToIntransitiveActivity)
	toHelper("ToQuestion", ap.ToQuestion)
	toHelper("ToLink", func(it ap.Item) (*ap.Link, error) { return ap.ToLink(it) })
	toHelper("ToCollection", ap.ToCollection)
	toHelper("ToCollectionPage", ap.ToCollectionPage)
	toHelper("ToOrderedCollection", ap.ToOrderedCollection)
	toHelper("ToOrderedCollectionPage", ap.ToOrderedCollectionPage)
	toHelper("ToItemCollection", ap.ToItemCollection)
	toHelper("ToIRIs", ap.ToIRIs)
	toHelper("ToPlace", ap.ToPlace)
	toHelper("ToProfile", ap.ToProfile)
	toHelper("ToRelationship", ap.ToRelationship)
	toHelper("ToTombstone", ap.ToTombstone)
	topHelpers["Flatten"] = func(it ap.Item) (string, string) { ap.Flatten(it); return "neutral", "none" }
	topHelpers["FlattenToIRI"] = func(it ap.Item) (string, string) { ap.FlattenToIRI(it); return "neutral", "none" }
	topHelpers["FlattenProperties"] = func(it ap.Item) (string, string) { ap.FlattenProperties(it); return "neutral", "none" }
	topHelpers["CleanRecipients"] = func(it ap.Item) (string, string) { ap.CleanRecipients(it); return "neutral", "none" }
	topHelpers["DerefItem"] = func(it ap.Item) (string, string) { ap.DerefItem(it); return "neutral", "none" }
	topHelpers["ItemOrderTimestamp-left"] = func(it ap.Item) (string, string) { ap.ItemOrderTimestamp(it, validNote()); return "neutral", "none" }
	topHelpers["ItemOrderTimestamp-right"] = func(it ap.Item) (string, string) { ap.ItemOrderTimestamp(validNote(), it); return "neutral", "none" }
	topHelpers["ItemCollection.Contains"] = func(it ap.Item) (string, string) {
		return boolClass(ap.ItemCollection{validNote(), ap.IRI("https://example.com/x")}.Contains(it)), "none"
	}
	topHelpers["ItemCollection.Append"] = func(it ap.Item) (string, string) {
		c := ap.ItemCollection{validNote()}
		cl := errClass(c.Append(it))
		if len(c) != 1 {
			cl = "grew" // appending nothing must not add a member
		}
		return cl, "none"
	}
	topHelpers["ItemCollection.Remove"] = func(it ap.Item) (string, string) {
		c := ap.ItemCollection{validNote(), ap.IRI("https://example.com/x")}
		c.Remove(it)
		return "neutral", "none"
	}
	topHelpers["IRIs.Contains"] = func(it ap.Item) (string, string) {
		return boolClass(ap.IRIs{"https://example.com/x"}.Contains(it)), "none"
	}
	topHelpers["IRIs.Append"] = func(it ap.Item) (string, string) {
		c := ap.IRIs{"https://example.com/x"}
		cl := errClass(c.Append(it))
		if len(c) != 1 {
			cl = "grew"
		}
		return cl, "none"
	}
	topHelpers["Collection.Contains"] = func(it ap.Item) (string, string) {
		c := ap.Collection{ID: "https://example.com/c", Type: ap.CollectionType, Items: ap.ItemCollection{validNote()}}
		return boolClass(c.Contains(it)), "none"
	}
	topHelpers["OrderedCollection.Append"] = func(it ap.Item) (string, string) {
		c := ap.OrderedCollection{ID: "https://example.com/c", Type: ap.OrderedCollectionType, OrderedItems: ap.ItemCollection{validNote()}}
		cl := errClass(c.Append(it))
		if c.Count() != 1 {
			cl = "grew"
		}
		return cl, "none"
	}
	topHelpers["Collection.Append"] = func(it ap.Item) (string, string) {
		c := ap.Collection{ID: "https://example.com/c", Type: ap.CollectionType, Items: ap.ItemCollection{validNote()}}
		cl := errClass(c.Append(it))
		if c.Count() != 1 {
			cl = "grew"
		}
		return cl, "none"
	}
	pageNew := func(it ap.Item, ordered bool) (string, string) {
		var parent ap.CollectionInterface
		if it != nil {
			ci, ok := it.(ap.CollectionInterface)
			if !ok {
				return "neutral", "none" // not a possible argument
			}
			parent = ci
		}
		if ordered {
			ap.OrderedCollectionPageNew(parent)
		} else {
			ap.CollectionPageNew(parent)
		}
		return "neutral", "none"
	}
	topHelpers["CollectionPageNew"] = func(it ap.Item) (string, string) { return pageNew(it, false) }
	topHelpers["OrderedCollectionPageNew"] = func(it ap.Item) (string, string) { return pageNew(it, true) }
	topHelpers["JSONWriteIRIProp"] = func(it ap.Item) (string, string) {
		b := []byte{'{'}
		ap.JSONWriteIRIProp(&b, "x", it)
		return "neutral", "none"
	}
	topHelpers["CopyItemProperties-to"] = func(it ap.Item) (string, string) {
		_, err := ap.CopyItemProperties(it, validNote())
		return errClass(err), "none"
	}
	topHelpers["CopyItemProperties-from"] = func(it ap.Item) (string, string) {
		_, err := ap.CopyItemProperties(validNote(), it)
		return errClass(err), "none"
	}
	boolClass := func(b bool) string {
		if b {
			return "true"
		}
		return "false"
	}
	vid := ap.IRI("https://example.com/eq/1")
	topHelpers["Object.Equals"] = func(it ap.Item) (string, string) {
		return boolClass(ap.Object{ID: vid, Type: ap.NoteType}.Equals(it)), "none"
	}
	topHelpers["Actor.Equals"] = func(it ap.Item) (string, string) {
		return boolClass(ap.Actor{ID: vid, Type: ap.PersonType, Inbox: ap.IRI(vid + "/inbox")}.Equals(it)), "none"
	}
	topHelpers["Activity.Equals"] = func(it ap.Item) (string, string) {
		return boolClass(ap.Activity{ID: vid, Type: ap.CreateType, Object: ap.IRI(vid + "/o")}.Equals(it)), "none"
	}
	topHelpers["IntransitiveActivity.Equals"] = func(it ap.Item) (string, string) {
		return boolClass(ap.IntransitiveActivity{ID: vid, Type: ap.ArriveType, Actor: ap.IRI(vid + "/a")}.Equals(it)), "none"
	}
	topHelpers["Link.Equals"] = func(it ap.Item) (string, string) {
		return boolClass(ap.Link{ID: vid, Type: ap.LinkType, Href: vid}.Equals(it)), "none"
	}
	topHelpers["Collection.Equals"] = func(it ap.Item) (string, string) {
		return boolClass(ap.Collection{ID: vid, Type: ap.CollectionType, Items: ap.ItemCollection{vid}}.Equals(it)), "none"
	}
	topHelpers["OrderedCollection.Equals"] = func(it ap.Item) (string, string) {
		return boolClass(ap.OrderedCollection{ID: vid, Type: ap.OrderedCollectionType, OrderedItems: ap.ItemCollection{vid}}.Equals(it)), "none"
	}
	topHelpers["CollectionPage.Equals"] = func(it ap.Item) (string, string) {
		return boolClass(ap.CollectionPage{ID: vid, Type: ap.CollectionPageType, Items: ap.ItemCollection{vid}}.Equals(it)), "none"
	}
	topHelpers["OrderedCollectionPage.Equals"] = func(it ap.Item) (string, string) {
		return boolClass(ap.OrderedCollectionPage{ID: vid, Type: ap.OrderedCollectionPageType, OrderedItems: ap.ItemCollection{vid}}.Equals(it)), "none"
	}
	topHelpers["ItemCollection.Equals"] = func(it ap.Item) (string, string) {
		return boolClass(ap.ItemCollection{vid}.Equals(it)), "none"
	}
	topHelpers["IRI.ItemsMatch"] = func(it ap.Item) (string, string) { return boolClass(vid.ItemsMatch(it)), "none" }
	topHelpers["MarshalJSON"] = func(it ap.Item) (string, string) { _, err := ap.MarshalJSON(it); return errClass(err), "none" }
	topHelpers["GobEncode"] = func(it ap.Item) (string, string) { _, err := ap.GobEncode(it); return errClass(err), "none" }
	topHelpers["CollectionPath.IRI"] = func(it ap.Item) (string, string) { ap.Inbox.IRI(it); ap.Likes.IRI(it); return "neutral", "none" }
	topHelpers["CollectionPath.Of"] = func(it ap.Item) (string, string) { ap.Inbox.Of(it); ap.Likes.Of(it); return "neutral", "none" }
	topHelpers["CollectionPath.AddTo"] = func(it ap.Item) (string, string) { ap.Inbox.AddTo(it); ap.Likes.AddTo(it); return "neutral", "none" }
}

// containers: a valid value holding the nil item as list member / as property
func containerFor(pos string, it ap.Item) []ap.Item {
	other := ap.IRI("https://example.com/other")
	if pos == "member" {
		return []ap.Item{
			ap.ItemCollection{validNote(), it, other},
			&ap.Object{ID: "https://example.com/o", Type: ap.NoteType, To: ap.ItemCollection{other, it}, Tag: ap.ItemCollection{it, validNote()}},
			&ap.Activity{ID: "https://example.com/a", Type: ap.CreateType, CC: ap.ItemCollection{it, other}, Object: validNote()},
			&ap.OrderedCollection{ID: "https://example.com/c", Type: ap.OrderedCollectionType, OrderedItems: ap.ItemCollection{validNote(), it}},
			// the nil item as the ONLY member (lists of one are written in compact form), in list-typed and item-typed positions
			ap.ItemCollection{it},
			&ap.Object{ID: "https://example.com/o1", Type: ap.NoteType, To: ap.ItemCollection{it}, Attachment: ap.ItemCollection{it}, Tag: ap.ItemCollection{it}},
			&ap.Activity{ID: "https://example.com/a1", Type: ap.CreateType, Actor: ap.ItemCollection{it}, Object: ap.ItemCollection{it}, BCC: ap.ItemCollection{it}},
			&ap.Collection{ID: "https://example.com/c1", Type: ap.CollectionType, Items: ap.ItemCollection{it}},
			ap.ItemCollection{it, it},
		}
	}
	out := []ap.Item{
		&ap.Object{ID: "https://example.com/o", Type: ap.NoteType, Attachment: it, AttributedTo: it, Replies: it},
		&ap.Activity{ID: "https://example.com/a", Type: ap.CreateType, Actor: it, Object: it, Target: it},
		&ap.Actor{ID: "https://example.com/p", Type: ap.PersonType, Inbox: it, Icon: it},
		&ap.Collection{ID: "https://example.com/c", Type: ap.CollectionType, First: it, Current: it},
		&ap.Activity{ID: "https://example.com/b", Type: ap.BlockType, Actor: ap.IRI("https://example.com/p"), Object: it, To: ap.ItemCollection{ap.IRI("https://example.com/q")}},
		&ap.Question{ID: "https://example.com/q", Type: ap.QuestionType, Actor: it, OneOf: it, AnyOf: it},
	}
	// every item-typed property of every struct type, one at a time (found by reflection over the jsonld-tagged fields)
	itemT := reflect.TypeOf((*ap.Item)(nil)).Elem()
	for _, g := range goTypeNames {
		t := goTypes[g]
		for i := 0; i < t.NumField(); i++ {
			if t.Field(i).Type != itemT {
				continue
			}
			v := reflect.New(t)
			v.Elem().FieldByName("ID").SetString("https://example.com/prop/" + g)
			if ft := v.Elem().FieldByName("Type"); ft.IsValid() {
				ft.SetString(defaultTypeName(g))
			}
			if it != nil {
				v.Elem().Field(i).Set(reflect.ValueOf(it))
			}
			out = append(out, v.Interface().(ap.Item))
		}
	}
	return out
}

func defaultTypeName(g string) string {
	switch g {
	case "Object":
		return "Note"
	case "Actor":
		return "Person"
	case "Activity":
		return "Create"
	case "IntransitiveActivity":
		return "Arrive"
	case "Link":
		return "Mention"
	}
	return g
}

var containerHelpers = map[string]func(c ap.Item) string{
	"MarshalJSON": func(c ap.Item) string { _, err := ap.MarshalJSON(c); return errClass(err) },
	"GobEncode":   func(c ap.Item) string { _, err := ap.GobEncode(c); return errClass(err) },
	"ItemsEqual-self": func(c ap.Item) string {
		ap.ItemsEqual(c, c)
		return "neutral"
	},
	"FlattenProperties": func(c ap.Item) string { ap.FlattenProperties(c); return "neutral" },
	"CleanRecipients":   func(c ap.Item) string { ap.CleanRecipients(c); return "neutral" },
	"Recipients": func(c ap.Item) string {
		if r, ok := c.(ap.HasRecipients); ok {
			r.Recipients()
		} else if l, ok := c.(ap.ItemCollection); ok {
			l.Recipients()
		}
		return "neutral"
	},
	"ItemCollectionDeduplication": func(c ap.Item) string {
		if l, ok := c.(ap.ItemCollection); ok {
			ap.ItemCollectionDeduplication(&l)
		} else {
			ap.OnObject(c, func(o *ap.Object) error { ap.ItemCollectionDeduplication(&o.To, &o.CC, &o.Tag); return nil })
		}
		return "neutral"
	},
	"Contains-valid": func(c ap.Item) string {
		if l, ok := c.(ap.ItemCollection); ok {
			l.Contains(ap.IRI("https://example.com/other"))
			l.Contains(validNote())
		} else {
			ap.OnCollectionIntf(c, func(ci ap.CollectionInterface) error { ci.Contains(ap.IRI("https://example.com/other")); return nil })
		}
		return "neutral"
	},
	"Append-valid": func(c ap.Item) string {
		if l, ok := c.(ap.ItemCollection); ok {
			l.Append(ap.IRI("https://example.com/new"))
		} else {
			ap.OnCollectionIntf(c, func(ci ap.CollectionInterface) error { return ci.Append(ap.IRI("https://example.com/new")) })
		}
		return "neutral"
	},
	"Remove-valid": func(c ap.Item) string {
		if l, ok := c.(ap.ItemCollection); ok {
			l.Remove(ap.IRI("https://example.com/other"))
		} else if col, err := ap.ToItemCollection(c); err == nil && col != nil {
			col.Remove(ap.IRI("https://example.com/other"))
		}
		return "neutral"
	},
	"ToIRIs":             func(c ap.Item) string { _, err := ap.ToIRIs(c); return errClass(err) },
	"OnIRIs":             func(c ap.Item) string { return errClass(ap.OnIRIs(c, func(*ap.IRIs) error { return nil })) },
	"CollectionPath.IRI": func(c ap.Item) string { ap.Inbox.IRI(c); ap.Likes.IRI(c); return "neutral" },
	"CollectionPath.Of":  func(c ap.Item) string { ap.Inbox.Of(c); ap.Likes.Of(c); return "neutral" },
	"DerefItem":          func(c ap.Item) string { ap.DerefItem(c); return "neutral" },
	"OnItem":             func(c ap.Item) string { ap.OnItem(c, func(ap.Item) error { return nil }); return "neutral" },
	"NotEmpty":           func(c ap.Item) string { ap.NotEmpty(c); return "neutral" },
	"Format":             func(c ap.Item) string { _ = fmt.Sprintf("%s %v %q", c, c, c); return "neutral" },
}

func init() {
	// vh c20-replay cells.ndjson trace.ndjson
	register("c20-replay", func(args []string) error {
		w, err := newNDWriter(args[1])
		if err != nil {
			return err
		}
		err = readNDJSON(args[0], func(raw []byte) error {
			var c struct{ H, Nk, Pos string }
			if err := json.Unmarshal(raw, &c); err != nil {
				return err
			}
			it := nilOfKind(c.Nk)
			if c.Pos == "top" {
				f, ok := topHelpers[c.H]
				if !ok {
					return fmt.Errorf("harness does not implement top helper %q of the matrix", c.H)
				}
				class, cb := "", "none"
				if p := guard(func() { class, cb = f(it) }); p != "" {
					w.Write(J{"ev": "cell", "h": c.H, "nk": c.Nk, "pos": c.Pos, "class": "panic", "cb": "none", "msg": p})
					return nil
				}
				w.Write(J{"ev": "cell", "h": c.H, "nk": c.Nk, "pos": c.Pos, "class": class, "cb": cb, "msg": ""})
				return nil
			}
			f, ok := containerHelpers[c.H]
			if !ok {
				return fmt.Errorf("harness does not implement container helper %q of the matrix", c.H)
			}
			for i, cont := range containerFor(c.Pos, it) {
				class := ""
				cont := cont
				if p := guard(func() { class = f(cont) }); p != "" {
					w.Write(J{"ev": "cell", "h": c.H, "nk": c.Nk, "pos": c.Pos, "class": "panic", "cb": "none", "msg": p, "container": fmt.Sprintf("%d:%T", i, cont)})
					continue
				}
				w.Write(J{"ev": "cell", "h": c.H, "nk": c.Nk, "pos": c.Pos, "class": class, "cb": "none", "msg": "", "container": fmt.Sprintf("%d:%T", i, cont)})
			}
			return nil
		})
		if err != nil {
			return err
		}
		return w.Close()
	})
}
