package main

// Pages.tla (growth beyond the listed properties): the page constructors on every collection value of the case families.

import (
	"encoding/json"

	ap "github.com/go-ap/activitypub"
)

func init() {
	// vh pages-run calls.ndjson trace.ndjson
	register("pages-run", func(args []string) error {
		w, err := newNDWriter(args[1])
		if err != nil {
			return err
		}
		err = readNDJSON(args[0], func(raw []byte) error {
			var c struct {
				Kind   string
				Parent J
			}
			if err := json.Unmarshal(raw, &c); err != nil {
				return err
			}
			parent := buildItem(c.Parent)
			var got ap.Item
			p := guard(func() {
				ci, ok := parent.(ap.CollectionInterface)
				if !ok {
					panic("the parent is not a CollectionInterface")
				}
				if c.Kind == "CollectionPage" {
					got = ap.CollectionPageNew(ci)
				} else {
					got = ap.OrderedCollectionPageNew(ci)
				}
			})
			ev := J{"ev": "page", "kind": c.Kind, "parent": c.Parent, "got": J{"k": "nil"}, "panic": p}
			if p == "" {
				ev["got"] = projectItem(got)
			}
			w.Write(ev)
			return nil
		})
		if err != nil {
			return err
		}
		return w.Close()
	})
}
