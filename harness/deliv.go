package main

// Delivery.tla (growth): the delivery protocol composed from Recipients(), Clean(), the JSON codec, collection IRIs and
// collection Append, executed on the real library; one event per protocol step, the observed state after each step logged.

import (
	"encoding/json"
	"fmt"
	"reflect"
	"strings"

	ap "github.com/go-ap/activitypub"
)

func dLists(e reflect.Value, class string) J {
	get := func(name string) []rEntry {
		f := e.FieldByName(name)
		if !f.IsValid() {
			return []rEntry{}
		}
		return rProjList(f.Interface().(ap.ItemCollection))
	}
	st := J{"class": class, "to": get("To"), "cc": get("CC"), "bto": get("Bto"), "bcc": get("BCC"), "aud": get("Audience"),
		"actor": rEntry{0, "nil"}, "object": rEntry{0, "nil"}}
	if class == "intransitive" || class == "question" {
		if f := e.FieldByName("Actor"); f.IsValid() && !f.IsNil() {
			st["actor"] = rProject(f.Interface().(ap.Item))
		}
	}
	if class == "block" {
		if f := e.FieldByName("Object"); f.IsValid() && !f.IsNil() {
			st["object"] = rProject(f.Interface().(ap.Item))
		}
	}
	return st
}

func dIDs(col *ap.OrderedCollection) []int {
	out := []int{}
	for _, it := range col.OrderedItems {
		s := string(it.GetLink())
		n := 0
		fmt.Sscanf(s[strings.LastIndex(s, "/")+1:], "%d", &n)
		out = append(out, n)
	}
	return out
}

func dRun(w *ndWriter, pre rValue, gotype string, pattern string) {
	pre0 := pre
	v := rBuild(pre, gotype)
	e := v.Elem()
	it := v.Interface().(ap.Item)
	step := func(op string, preSt J, f func() J) (J, bool) {
		var post J
		p := guard(func() { post = f() })
		ev := J{"ev": "dstep", "op": op, "gotype": gotype, "pattern": pattern, "pre": preSt, "post": J{}, "panic": p}
		if p == "" {
			ev["post"] = post
		}
		w.Write(ev)
		return post, p == ""
	}
	e.FieldByName("Summary").Set(reflect.ValueOf(ap.NaturalLanguageValues{{Ref: ap.NilLangRef, Value: ap.Content("v1")}}))
	st0 := dLists(e, pre.Class)
	// Address
	var ret ap.ItemCollection
	post, ok := step("address", st0, func() J {
		ret = it.(ap.HasRecipients).Recipients()
		rw := []int{}
		for _, r := range ret {
			rw = append(rw, rProject(r).W)
		}
		st := dLists(e, pre.Class)
		st["ret"] = rw
		return st
	})
	if !ok {
		return
	}
	addressed := dLists(e, pre.Class)
	// Strip
	_, ok = step("strip", addressed, func() J {
		ap.CleanRecipients(it)
		return dLists(e, pre.Class)
	})
	if !ok {
		return
	}
	stripped := dLists(e, pre.Class)
	// Encode: what a remote server decodes
	var data []byte
	_, ok = step("encode", stripped, func() J {
		var err error
		if data, err = ap.MarshalJSON(it); err != nil {
			panic("encode: " + err.Error())
		}
		got, err := ap.UnmarshalJSON(data)
		if err != nil {
			panic("decode: " + err.Error())
		}
		gv := reflect.ValueOf(got)
		if gv.Kind() != reflect.Ptr || gv.Elem().Kind() != reflect.Struct {
			panic(fmt.Sprintf("decoded as %T", got))
		}
		return dLists(gv.Elem(), pre.Class)
	})
	if !ok {
		return
	}
	_ = post
	// Deliver: every deliverable addressee, two messages, in one of two network schedules
	type dl struct {
		m int
		r ap.Item
	}
	var targets []ap.Item
	for _, r := range ret {
		if rProject(r).W != 9 {
			targets = append(targets, r)
		}
	}
	var sched []dl
	if pattern == "in-order" {
		for m := 1; m <= 2; m++ {
			for _, r := range targets {
				sched = append(sched, dl{m, r})
			}
		}
	} else { // reversed, interleaved, every first delivery repeated
		for i := len(targets) - 1; i >= 0; i-- {
			sched = append(sched, dl{2, targets[i]}, dl{1, targets[i]}, dl{2, targets[i]})
		}
	}
	boxes := map[int]*ap.OrderedCollection{}
	for _, d := range sched {
		wr := rProject(d.r).W
		var wbox int
		var inbox ap.IRI
		var pre, postIDs []int
		p := guard(func() {
			inbox = ap.Inbox.IRI(d.r)
			wbox = rProject(ap.IRI(strings.TrimSuffix(strings.TrimSuffix(string(inbox), "/"), "/inbox"))).W
			col, have := boxes[wbox]
			if !have {
				col = &ap.OrderedCollection{ID: inbox, Type: ap.OrderedCollectionType}
				boxes[wbox] = col
			}
			pre = dIDs(col)
			msg, err := ap.UnmarshalJSON(data) // the remote's own copy of the message
			if err != nil {
				panic("decode: " + err.Error())
			}
			reflect.ValueOf(msg).Elem().FieldByName("ID").SetString(fmt.Sprintf("https://example.com/values/%d", d.m))
			if err := col.Append(msg); err != nil {
				panic("append: " + err.Error())
			}
			postIDs = dIDs(col)
		})
		if pre == nil {
			pre = []int{}
		}
		if postIDs == nil {
			postIDs = []int{}
		}
		w.Write(J{"ev": "dstep", "op": "deliver", "gotype": gotype, "pattern": pattern, "m": d.m, "w": wr, "wbox": wbox, "inbox": string(inbox),
			"pre": J{"box": pre}, "post": J{"box": postIDs}, "panic": p})
	}
	// Persist: every inbox through the gob codec, as a store would keep it
	for wbox, col := range boxes {
		pre := dIDs(col)
		var post []int
		var count uint
		p := guard(func() {
			data, err := ap.GobEncode(col)
			if err != nil {
				panic("gob encode: " + err.Error())
			}
			back, err := ap.GobDecode(data)
			if err != nil {
				panic("gob decode: " + err.Error())
			}
			oc, ok := back.(*ap.OrderedCollection)
			if !ok {
				panic(fmt.Sprintf("stored inbox came back as %T", back))
			}
			post, count = dIDs(oc), oc.Count()
			boxes[wbox] = oc
		})
		if post == nil {
			post = []int{}
		}
		w.Write(J{"ev": "dstep", "op": "persist", "gotype": gotype, "pattern": pattern, "w": wbox, "pre": J{"box": pre}, "post": J{"box": post, "count": count}, "panic": p})
	}
	// Update: version 2 of message 1 is merged into every stored copy
	verOf := func(it ap.Item) int {
		v := 0
		_ = ap.OnObject(it, func(o *ap.Object) error {
			if len(o.Summary) == 1 {
				fmt.Sscanf(string(o.Summary[0].Value), "v%d", &v)
			}
			return nil
		})
		return v
	}
	for wbox, col := range boxes {
		var stored ap.Item
		for _, it := range col.OrderedItems {
			if strings.HasSuffix(string(it.GetLink()), "/values/1") {
				stored = it
			}
		}
		if stored == nil {
			continue
		}
		pre := dIDs(col)
		prever := verOf(stored)
		var post []int
		postver, idkept, merr := 0, false, ""
		p := guard(func() {
			newv, err := ap.UnmarshalJSON(data)
			if err != nil {
				panic("decode: " + err.Error())
			}
			ne := reflect.ValueOf(newv).Elem()
			ne.FieldByName("ID").SetString("https://example.com/values/1")
			ne.FieldByName("Summary").Set(reflect.ValueOf(ap.NaturalLanguageValues{{Ref: ap.NilLangRef, Value: ap.Content("v2")}}))
			if _, err := ap.CopyItemProperties(stored, newv); err != nil {
				merr = err.Error()
			}
			post = dIDs(col)
			for _, it := range col.OrderedItems {
				if strings.HasSuffix(string(it.GetLink()), "/values/1") {
					postver, idkept = verOf(it), true
				}
			}
		})
		if post == nil {
			post = []int{}
		}
		w.Write(J{"ev": "dstep", "op": "update", "gotype": gotype, "pattern": pattern, "class": pre0.Class, "w": wbox, "pre": J{"box": pre, "ver": prever},
			"post": J{"box": post, "ver": postver, "idkept": idkept, "err": merr}, "panic": p})
	}
	final := []J{}
	for wbox, col := range boxes {
		final = append(final, J{"w": wbox, "box": dIDs(col), "count": col.Count()})
	}
	w.Write(J{"ev": "dstep", "op": "final", "gotype": gotype, "pattern": pattern, "pre": st0, "post": J{"boxes": final}, "panic": ""})
}

func init() {
	// vh deliv-run transitions.ndjson trace.ndjson <every>
	register("deliv-run", func(args []string) error {
		w, err := newNDWriter(args[1])
		if err != nil {
			return err
		}
		every := atoi(args[2])
		n := 0
		err = readNDJSON(args[0], func(raw []byte) error {
			var cs struct {
				Pre rValue `json:"pre"`
			}
			if err := json.Unmarshal(raw, &cs); err != nil {
				return err
			}
			n++
			if n%every != 0 {
				return nil
			}
			gt := rGoTypesFor(cs.Pre.Class, n, false)[0]
			pattern := "in-order"
			if (n/every)%2 == 1 {
				pattern = "redelivered"
			}
			dRun(w, cs.Pre, gt, pattern)
			return nil
		})
		if err != nil {
			return err
		}
		return w.Close()
	})
}
