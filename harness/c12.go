package main

// C12: read-only operations.  (1) frame check: deep snapshot of the argument graph -- every slice up to its
// CAPACITY, values rebuilt with spare capacity holding sentinels -- before and after each operation;
// (2) schedules: operation pairs on one shared value from several goroutines (others decode unrelated
// documents), run under the race detector; results compared with the sequential ones.
// Events for ReadOnlyTrace.tla.

import (
	"bytes"
	"crypto/sha256"
	"encoding/json"
	"fmt"
	"os"
	"reflect"
	"regexp"
	"strings"
	"sync"

	ap "github.com/go-ap/activitypub"
)

// addSpare re-allocates every slice reachable from v with 3 spare elements holding sentinels
func addSpare(v reflect.Value, depth int) {
	if depth > 12 {
		return
	}
	switch v.Kind() {
	case reflect.Ptr:
		if !v.IsNil() {
			addSpare(v.Elem(), depth+1)
		}
	case reflect.Interface:
		if !v.IsNil() {
			e := v.Elem()
			if e.Kind() == reflect.Ptr {
				addSpare(e, depth+1)
			} else if e.Kind() == reflect.Slice && v.CanSet() {
				ns := spareSlice(e, depth)
				v.Set(ns)
			}
		}
	case reflect.Struct:
		for i := 0; i < v.NumField(); i++ {
			if v.Field(i).CanSet() {
				addSpare(v.Field(i), depth+1)
			}
		}
	case reflect.Slice:
		if v.CanSet() && !v.IsNil() {
			v.Set(spareSlice(v, depth))
		}
	}
}

func spareSlice(s reflect.Value, depth int) reflect.Value {
	n := s.Len()
	ns := reflect.MakeSlice(s.Type(), n, n+3)
	reflect.Copy(ns, s)
	for i := 0; i < n; i++ {
		addSpare(ns.Index(i), depth+1)
	}
	full := ns.Slice(0, n+3)
	for i := n; i < n+3; i++ {
		e := full.Index(i)
		switch {
		case e.Kind() == reflect.Uint8:
			e.SetUint(0xEE)
		case e.Kind() == reflect.String:
			e.SetString("sentinel")
		case e.Kind() == reflect.Interface:
			e.Set(reflect.ValueOf(ap.IRI("https://sentinel.example/spare")))
		case e.Kind() == reflect.Struct && e.NumField() == 2: // LangRefValue
			e.Field(0).SetString("zz")
			e.Field(1).SetBytes([]byte("sentinel"))
		}
	}
	return ns
}

// snapshot hashes the whole graph, slices up to their capacity
func snapshot(v reflect.Value, h *bytes.Buffer, depth int) {
	if depth > 14 {
		return
	}
	switch v.Kind() {
	case reflect.Ptr:
		if v.IsNil() {
			h.WriteString("nilptr;")
			return
		}
		h.WriteString("*")
		snapshot(v.Elem(), h, depth+1)
	case reflect.Interface:
		if v.IsNil() {
			h.WriteString("nilif;")
			return
		}
		fmt.Fprintf(h, "<%s>", v.Elem().Type())
		snapshot(v.Elem(), h, depth+1)
	case reflect.Struct:
		if t, ok := v.Interface().(interface{ UnixNano() int64 }); ok && v.Type().String() == "time.Time" {
			fmt.Fprintf(h, "t%d;", t.UnixNano())
			return
		}
		h.WriteString("{")
		for i := 0; i < v.NumField(); i++ {
			snapshot(v.Field(i), h, depth+1)
		}
		h.WriteString("}")
	case reflect.Slice:
		if v.IsNil() {
			h.WriteString("nilslice;")
			return
		}
		fmt.Fprintf(h, "[%d/%d:", v.Len(), v.Cap())
		full := v.Slice(0, v.Cap())
		if v.Type().Elem().Kind() == reflect.Uint8 {
			h.Write(full.Bytes())
		} else {
			for i := 0; i < full.Len(); i++ {
				snapshot(full.Index(i), h, depth+1)
			}
		}
		h.WriteString("]")
	case reflect.String:
		fmt.Fprintf(h, "%q;", v.String())
	case reflect.Bool, reflect.Int, reflect.Int64, reflect.Uint, reflect.Uint8, reflect.Float64:
		fmt.Fprintf(h, "%v;", v.Interface())
	default:
		fmt.Fprintf(h, "?%s;", v.Kind())
	}
}

func snapHash(it ap.Item) string {
	b := bytes.Buffer{}
	snapshot(reflect.ValueOf(&it).Elem(), &b, 0)
	return fmt.Sprintf("%x", sha256.Sum256(b.Bytes()))
}

// the read-only operations; each returns a result string (compared between concurrent and sequential runs)
var roOps = map[string]func(it ap.Item) string{
	"MarshalJSON": func(it ap.Item) string { b, err := ap.MarshalJSON(it); return fmt.Sprintf("%s|%v", b, err) },
	"TypeMarshalJSON": func(it ap.Item) string {
		if m, ok := it.(json.Marshaler); ok {
			b, err := m.MarshalJSON()
			return fmt.Sprintf("%s|%v", b, err)
		}
		return ""
	},
	"GobEncode": func(it ap.Item) string {
		// gob writes a Go map, whose iteration order varies: compare what the bytes decode to, not the bytes
		b, err := ap.GobEncode(it)
		if err != nil {
			return "err:" + err.Error()
		}
		d, err := ap.GobDecode(b)
		if err != nil {
			return "decerr:" + err.Error()
		}
		j, _ := json.Marshal(projectItem(d))
		return string(j)
	},
	"MarshalBinary": func(it ap.Item) string {
		if m, ok := it.(interface{ MarshalBinary() ([]byte, error) }); ok {
			b, err := m.MarshalBinary()
			return fmt.Sprintf("%d|%v", len(b), err)
		}
		return ""
	},
	"ItemsEqualSelf": func(it ap.Item) string { return fmt.Sprint(ap.ItemsEqual(it, it)) },
	"ItemsEqualCopy": func(it ap.Item) string {
		// compare with an independently decoded copy
		b, err := ap.MarshalJSON(it)
		if err != nil {
			return "err"
		}
		c, _ := ap.UnmarshalJSON(b)
		return fmt.Sprint(ap.ItemsEqual(it, c), ap.ItemsEqual(c, it))
	},
	"Format": func(it ap.Item) string { return fmt.Sprintf("%s|%v|%q|%+v", it, it, it, it) },
	"Inspect": func(it ap.Item) string {
		return fmt.Sprint(ap.IsNil(it), ap.NotEmpty(it), ap.IsObject(it), ap.IsLink(it), ap.IsIRI(it), ap.IsItemCollection(it), it.IsCollection(), it.IsObject(), it.IsLink())
	},
	"DerefItem": func(it ap.Item) string { return fmt.Sprint(len(ap.DerefItem(it))) },
	"OnObject": func(it ap.Item) string {
		s := ""
		_ = ap.OnObject(it, func(o *ap.Object) error { s = fmt.Sprint(o.ID, o.Type, len(o.To), len(o.Name)); return nil })
		return s
	},
	"OnTyped": func(it ap.Item) string {
		s := ""
		_ = ap.OnActivity(it, func(a *ap.Activity) error { s += fmt.Sprint("act", a.ID, a.Object != nil); return nil })
		_ = ap.OnIntransitiveActivity(it, func(a *ap.IntransitiveActivity) error { s += fmt.Sprint("intr", a.ID, a.Actor != nil); return nil })
		_ = ap.OnActor(it, func(a *ap.Actor) error { s += fmt.Sprint("actor", a.ID, a.Inbox != nil); return nil })
		_ = ap.OnCollectionIntf(it, func(c ap.CollectionInterface) error { s += fmt.Sprint("col", c.Count()); return nil })
		_ = ap.OnLink(it, func(l *ap.Link) error { s += fmt.Sprint("link", l.Href); return nil })
		return s
	},
	"ToObject": func(it ap.Item) string {
		o, err := ap.ToObject(it)
		if err != nil || o == nil {
			return "err"
		}
		return fmt.Sprint(o.ID, o.Published.Unix(), o.Duration)
	},
	"CollectionRead": func(it ap.Item) string {
		s := ""
		_ = ap.OnCollectionIntf(it, func(c ap.CollectionInterface) error {
			col := c.Collection()
			s = fmt.Sprint(c.Count(), len(col), c.Contains(ap.IRI("https://example.com/actors/alice")), col.First() != nil, len(col.IRIs()),
				col.ItemsMatch(ap.IRI("https://example.com/actors/alice")))
			return nil
		})
		return s
	},
	"CollectionPathOf": func(it ap.Item) string {
		return fmt.Sprint(ap.Inbox.IRI(it), ap.Likes.IRI(it), ap.Replies.Of(it) != nil, ap.Followers.Of(it) != nil)
	},
	"Getters": func(it ap.Item) string { return fmt.Sprint(it.GetID(), it.GetLink(), it.GetType()) },
	"NLVRead": func(it ap.Item) string {
		s := ""
		_ = ap.OnObject(it, func(o *ap.Object) error {
			s = fmt.Sprint(o.Name.String(), o.Name.Get("en"), o.Name.First(), o.Name.Count(), o.Content.Equals(o.Content), o.Summary.Get(ap.NilLangRef))
			return nil
		})
		return s
	},
}

func init() {
	// vh c12-frame vals.ndjson ops.ndjson trace.ndjson
	register("c12-frame", func(args []string) error {
		var ops []string
		readNDJSON(args[1], func(raw []byte) error {
			var o struct{ Ops []string }
			json.Unmarshal(raw, &o)
			ops = o.Ops
			return nil
		})
		for _, o := range ops {
			if _, ok := roOps[o]; !ok {
				return fmt.Errorf("harness does not implement read-only operation %q of ReadOnlyGen.tla", o)
			}
		}
		w, err := newNDWriter(args[2])
		if err != nil {
			return err
		}
		n := 0
		err = readNDJSON(args[0], func(raw []byte) error {
			var c rtCase
			if err := json.Unmarshal(raw, &c); err != nil {
				return err
			}
			n++
			in := c.V
			if n%4 == 3 && in["k"] == "obj" { // value form too
				cp := J{}
				for k, v := range in {
					cp[k] = v
				}
				cp["ptr"] = false
				in = cp
			}
			for _, op := range ops {
				it := buildItem(in)
				holder := reflect.ValueOf(&it).Elem()
				addSpare(holder, 0)
				before := snapHash(it)
				p := guard(func() { roOps[op](it) })
				after := snapHash(it)
				gname := fmt.Sprint(c.Lab["g"])
				// lists with nil members are outside what the inspecting helpers promise to survive (C20 speaks of nil ITEMS, not of
				// nil members): there only the frame condition is judged, whether or not the operation completed
				panicked := p != "" && c.Lab["fam"] != "nil-member"
				w.Write(J{"ev": "frame", "op": op, "g": gname, "lab": c.Lab, "changed": before != after, "panic": panicked, "msg": p})
			}
			return nil
		})
		if err != nil {
			return err
		}
		return w.Close()
	})
	// vh c12-sched sched.ndjson vals.ndjson trace.ndjson <reps> : must run in a -race build with GORACE=log_path=...
	register("c12-sched", func(args []string) error {
		// the shared values: the Full case of every root type
		full := map[string]J{}
		readNDJSON(args[1], func(raw []byte) error {
			var c rtCase
			if json.Unmarshal(raw, &c) == nil && c.Lab["fam"] == "full" {
				full[c.Lab["g"].(string)] = c.V
			}
			return nil
		})
		reps := atoi(args[3])
		w, err := newNDWriter(args[2])
		if err != nil {
			return err
		}
		unrelated := [][]byte{
			[]byte(`{"id":"https://other.example/1","type":"Create","actor":"https://other.example/a","object":{"type":"Note","content":"x","to":["https://other.example/b"]}}`),
			[]byte(`{"id":"https://other.example/2","type":"OrderedCollection","totalItems":2,"orderedItems":["https://other.example/3",{"type":"Person","id":"https://other.example/4","nameMap":{"en":"a","fr":"b"}}]}`),
		}
		err = readNDJSON(args[0], func(raw []byte) error {
			var s struct {
				Root       string
				Ops        []string
				Goroutines int
				Decoders   int
			}
			if err := json.Unmarshal(raw, &s); err != nil {
				return err
			}
			v, ok := full[s.Root]
			if !ok {
				return fmt.Errorf("no Full value for root %s", s.Root)
			}
			shared := buildItem(v)
			addSpare(reflect.ValueOf(&shared).Elem(), 0)
			// sequential results first
			seq := map[string]string{}
			panicked := false
			for _, op := range s.Ops {
				if p := guard(func() { seq[op] = roOps[op](shared) }); p != "" {
					panicked = true
				}
			}
			same := true
			var mu sync.Mutex
			var wg sync.WaitGroup
			start := make(chan struct{})
			for g := 0; g < s.Goroutines; g++ {
				op := s.Ops[g%len(s.Ops)]
				wg.Add(1)
				go func() {
					defer wg.Done()
					defer func() {
						if r := recover(); r != nil {
							mu.Lock()
							panicked = true
							mu.Unlock()
						}
					}()
					<-start
					for i := 0; i < reps; i++ {
						if r := roOps[op](shared); r != seq[op] {
							mu.Lock()
							same = false
							mu.Unlock()
						}
					}
				}()
			}
			for d := 0; d < s.Decoders; d++ {
				doc := unrelated[d%len(unrelated)]
				wg.Add(1)
				go func() {
					defer wg.Done()
					<-start
					for i := 0; i < reps; i++ {
						it, _ := ap.UnmarshalJSON(doc)
						if it != nil {
							_, _ = ap.GobEncode(it)
						}
					}
				}()
			}
			close(start)
			wg.Wait()
			w.Write(J{"ev": "sched", "root": s.Root, "ops": s.Ops, "same": same, "panic": panicked})
			return nil
		})
		if err != nil {
			return err
		}
		return w.Close()
	})
	// vh c12-races <logprefix> trace.ndjson : turns race detector reports into events
	register("c12-races", func(args []string) error {
		w, err := newNDWriter(args[1])
		if err != nil {
			return err
		}
		files, _ := filepathGlob(args[0] + "*")
		fn := regexp.MustCompile(`github\.com/go-ap/activitypub\.([A-Za-z0-9_.()*]+)`)
		for _, f := range files {
			b, _ := os.ReadFile(f)
			for _, rep := range strings.Split(string(b), "WARNING: DATA RACE")[1:] {
				where := "unknown"
				if m := fn.FindStringSubmatch(rep); m != nil {
					where = m[1]
				}
				if len(rep) > 1500 {
					rep = rep[:1500]
				}
				w.Write(J{"ev": "race", "where": where, "report": rep})
			}
		}
		return w.Close()
	})
}
