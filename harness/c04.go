package main

// C04: decoders are total.  Hostile documents (HostileGen.tla) and byte-level damage go to every decoding
// entry point under recover() with a deadline and an allocation bound; follow-ups run on returned values.
// Work is done in a child process per batch (stack exhaustion is fatal); the parent restarts after a crash.
// Events for HostileTrace.tla.

import (
	"bufio"
	"bytes"
	"encoding/gob"
	"encoding/json"
	"fmt"
	"math/rand"
	"os"
	"os/exec"
	"reflect"
	"runtime"
	"strings"
	"time"

	ap "github.com/go-ap/activitypub"
)

// expand turns a hostile tagged tree into bytes ("deep" and "raw" nodes are expanded here)
func hostileBytes(n J, b *bytes.Buffer) {
	switch n["j"] {
	case "deep":
		d := int(num(n["n"]))
		if n["kind"] == "arr" {
			b.WriteString(strings.Repeat("[", d))
			b.WriteString(strings.Repeat("]", d))
		} else {
			b.WriteString(strings.Repeat(`{"object":`, d))
			b.WriteString(`"x"`)
			b.WriteString(strings.Repeat("}", d))
		}
	case "wide":
		d := int(num(n["n"]))
		switch n["kind"] {
		case "langmap":
			b.WriteByte('{')
			for i := 0; i < d; i++ {
				if i > 0 {
					b.WriteByte(',')
				}
				fmt.Fprintf(b, `"l%d":"text %d"`, i, i)
			}
			b.WriteByte('}')
			return
		case "members", "repeated":
			b.WriteString(`{"id":"https://example.com/wide","type":"Note"`)
			for i := 0; i < d; i++ {
				if n["kind"] == "members" {
					fmt.Fprintf(b, `,"x%d":"v"`, i)
				} else {
					fmt.Fprintf(b, `,"name":"v%d"`, i)
				}
			}
			b.WriteByte('}')
			return
		case "escapes":
			b.WriteString(`{"id":"https://example.com/wide","type":"Note","content":"`)
			b.WriteString(strings.Repeat(`\"<p>x\\y</p>\n\u00e9`, d))
			b.WriteString(`"}`)
			return
		}
		b.WriteByte('[')
		for i := 0; i < d; i++ {
			if i > 0 {
				b.WriteByte(',')
			}
			switch n["kind"] {
			case "iri":
				fmt.Fprintf(b, `"https://example.com/w/%d"`, i)
			case "obj":
				fmt.Fprintf(b, `{"id":"https://example.com/w/%d","type":"Note"}`, i)
			default:
				fmt.Fprintf(b, `{"type":"Note","name":"w%d"}`, i)
			}
		}
		b.WriteByte(']')
	case "chain":
		d := int(num(n["n"]))
		terms := []string{n["a"].(string), n["b"].(string)}
		for i := 0; i < d; i++ {
			b.WriteByte('{')
			switch n["style"] {
			case "typed":
				fmt.Fprintf(b, `"id":"https://example.com/c/%d","type":"Note",`, i)
			case "activity":
				fmt.Fprintf(b, `"id":"https://example.com/c/%d","type":"Create","actor":"https://example.com/a",`, i)
			case "person":
				fmt.Fprintf(b, `"id":"https://example.com/c/%d","type":"Person","inbox":"https://example.com/c/%d/inbox",`, i, i)
			case "collection":
				fmt.Fprintf(b, `"id":"https://example.com/c/%d","type":"OrderedCollection","totalItems":1,`, i)
			case "idless-activity":
				b.WriteString(`"type":"Create","actor":"https://example.com/a",`)
			case "idless-person":
				b.WriteString(`"type":"Person","preferredUsername":"p",`)
			case "idless-collection":
				b.WriteString(`"type":"OrderedCollection","totalItems":1,`)
			case "idless-ucollection":
				b.WriteString(`"type":"Collection","totalItems":1,`)
			case "idless-page":
				b.WriteString(`"type":"CollectionPage","totalItems":1,`)
			case "idless-opage":
				b.WriteString(`"type":"OrderedCollectionPage","totalItems":1,`)
			case "href":
				fmt.Fprintf(b, `"href":"https://example.com/h/%d",`, i)
			case "link":
				fmt.Fprintf(b, `"type":"Link","href":"https://example.com/h/%d",`, i)
			}
			fmt.Fprintf(b, `"name":"n%d",%q:`, i, terms[i%2])
		}
		b.WriteString(`"https://example.com/end"`)
		b.WriteString(strings.Repeat("}", d))
	case "raw":
		b.WriteString(n["text"].(string))
	case "arr":
		b.WriteByte('[')
		es, _ := n["e"].([]interface{})
		for i, e := range es {
			if i > 0 {
				b.WriteByte(',')
			}
			hostileBytes(e.(map[string]interface{}), b)
		}
		b.WriteByte(']')
	case "obj":
		b.WriteByte('{')
		ms, _ := n["m"].([]interface{})
		for i, m := range ms {
			if i > 0 {
				b.WriteByte(',')
			}
			mm := m.(map[string]interface{})
			k, _ := json.Marshal(mm["k"].(string))
			b.Write(k)
			b.WriteByte(':')
			hostileBytes(mm["n"].(map[string]interface{}), b)
		}
		b.WriteByte('}')
	default:
		treeToJSON(n, b)
	}
}

type entryPoint struct {
	name string
	kind string // json | text | gob
	call func(data []byte) (interface{}, error)
}

func perType(name string, t reflect.Type, method string) entryPoint {
	kind := "json"
	if strings.Contains(method, "Gob") || strings.Contains(method, "Binary") {
		kind = "gob"
	} else if strings.Contains(method, "Text") {
		kind = "text"
	}
	return entryPoint{name: "(*" + name + ")." + method, kind: kind, call: func(data []byte) (interface{}, error) {
		v := reflect.New(t)
		m := v.MethodByName(method)
		out := m.Call([]reflect.Value{reflect.ValueOf(data)})
		if e := out[0].Interface(); e != nil {
			return nil, e.(error)
		}
		return v.Interface(), nil
	}}
}

var entryPoints = func() []entryPoint {
	eps := []entryPoint{
		{"UnmarshalJSON", "json", func(d []byte) (interface{}, error) { return ap.UnmarshalJSON(d) }},
		{"GobDecode", "gob", func(d []byte) (interface{}, error) { return ap.GobDecode(d) }},
	}
	extra := map[string]reflect.Type{"IRI": reflect.TypeOf(ap.IRI("")), "IRIs": reflect.TypeOf(ap.IRIs{}), "ItemCollection": reflect.TypeOf(ap.ItemCollection{}),
		"NaturalLanguageValues": reflect.TypeOf(ap.NaturalLanguageValues{}), "LangRefValue": reflect.TypeOf(ap.LangRefValue{}), "LangRef": reflect.TypeOf(ap.LangRef("")),
		"Content": reflect.TypeOf(ap.Content{}), "MimeType": reflect.TypeOf(ap.MimeType("")), "ActivityVocabularyType": reflect.TypeOf(ap.ActivityVocabularyType("")),
		"Source": reflect.TypeOf(ap.Source{}), "PublicKey": reflect.TypeOf(ap.PublicKey{}), "Endpoints": reflect.TypeOf(ap.Endpoints{})}
	all := map[string]reflect.Type{}
	for k, v := range goTypes {
		all[k] = v
	}
	for k, v := range extra {
		all[k] = v
	}
	var names []string
	for k := range all {
		names = append(names, k)
	}
	sortStrings(names)
	for _, n := range names {
		t := all[n]
		for _, m := range []string{"UnmarshalJSON", "UnmarshalText", "GobDecode", "UnmarshalBinary"} {
			if _, ok := reflect.PtrTo(t).MethodByName(m); ok {
				eps = append(eps, perType(n, t, m))
			}
		}
	}
	return eps
}()

func followUps(v interface{}) []J {
	out := []J{}
	run := func(name string, f func() error) {
		o := "ok"
		msg := ""
		func() {
			defer func() {
				if r := recover(); r != nil {
					o, msg = "panic", fmt.Sprint(r)
				}
			}()
			if err := f(); err != nil {
				o = "error"
			}
		}()
		if msg != "" {
			out = append(out, J{"f": name, "o": o, "msg": msg})
			return
		}
		out = append(out, J{"f": name, "o": o})
	}
	it, isItem := v.(ap.Item)
	run("format", func() error { _ = fmt.Sprintf("%s %v %q %+v", v, v, v, v); return nil })
	if isItem {
		run("inspect", func() error {
			ap.IsNil(it)
			ap.NotEmpty(it)
			ap.IsObject(it)
			ap.IsLink(it)
			ap.DerefItem(it)
			if !ap.IsNil(it) {
				it.GetType()
				it.GetLink()
				it.IsCollection()
			}
			return nil
		})
		run("compare", func() error { ap.ItemsEqual(it, it); return nil })
		run("reencode-json", func() error { _, err := ap.MarshalJSON(it); return err })
		run("reencode-gob", func() error { _, err := ap.GobEncode(it); return err })
	} else {
		if m, ok := v.(json.Marshaler); ok {
			run("reencode-json", func() error { _, err := m.MarshalJSON(); return err })
		}
		if g, ok := v.(interface{ GobEncode() ([]byte, error) }); ok {
			run("reencode-gob", func() error { _, err := g.GobEncode(); return err })
		}
	}
	return out
}

var measureAlloc = true

// c04Call runs the decode and its follow-ups in one goroutine watched by one timer
func c04Call(ep entryPoint, data []byte, caseID string) J {
	ev := J{"ev": "dec", "entry": ep.name, "case": caseID, "len": len(data), "outcome": "", "ms": 0, "alloc": 0, "follow": []J{}}
	type res struct {
		err    error
		p      string
		follow []J
		value  bool
	}
	ch := make(chan res, 1)
	var m0, m1 runtime.MemStats
	if measureAlloc {
		runtime.ReadMemStats(&m0)
	}
	t0 := time.Now()
	go func() {
		var r res
		defer func() {
			if x := recover(); x != nil {
				r.p = fmt.Sprint(x)
			}
			ch <- r
		}()
		v, err := ep.call(append([]byte{}, data...))
		r.err = err
		if err == nil {
			r.value = true
			// wide documents: only the decoder's cost is judged (comparing two long lists is quadratic by design, and the
			// statement demands of the follow-ups only that they do not panic)
			if !strings.Contains(caseID, ":wide-") {
				r.follow = followUps(v)
			} else {
				r.follow = []J{}
			}
		}
	}()
	timer := time.NewTimer(8 * time.Second)
	var r res
	select {
	case r = <-ch:
		timer.Stop()
	case <-timer.C:
		ev["outcome"] = "hang"
		ev["ms"] = 8000
		return ev
	}
	ev["ms"] = int(time.Since(t0) / time.Millisecond)
	if measureAlloc {
		runtime.ReadMemStats(&m1)
		ev["alloc"] = int(m1.TotalAlloc - m0.TotalAlloc)
	}
	switch {
	case r.p != "":
		ev["outcome"], ev["msg"] = "panic", r.p
	case r.err != nil:
		ev["outcome"] = "error"
	default:
		ev["outcome"] = "value"
		ev["follow"] = r.follow
	}
	return ev
}

type c04Case struct {
	id    string
	kinds string // which entry kinds get it: "json", "gob", "all"
	data  []byte
	g     string // Go type the document is about ("" = none)
}

func c04Cases(docsPath string, tier string) ([]c04Case, error) {
	var cases []c04Case
	var bases [][]byte
	n := 0
	err := readNDJSON(docsPath, func(raw []byte) error {
		var c struct {
			G, T, Shape, Nest, Base string
			Doc                     J
		}
		if err := json.Unmarshal(raw, &c); err != nil {
			return err
		}
		b := bytes.Buffer{}
		hostileBytes(c.Doc, &b)
		if c.Base == "rich" {
			c.Nest += "+rich"
		}
		cases = append(cases, c04Case{id: fmt.Sprintf("doc:%s.%s:%s:%s", c.G, c.T, c.Shape, c.Nest), kinds: "json", data: b.Bytes(), g: c.G})
		if n%997 == 0 && b.Len() < 400 {
			bases = append(bases, b.Bytes())
		}
		n++
		return nil
	})
	if err != nil {
		return nil, err
	}
	// byte-level damage: empty, every 1-byte input, every prefix of some base documents
	cases = append(cases, c04Case{id: "bytes:empty", kinds: "all", data: []byte{}})
	for i := 0; i < 256; i++ {
		cases = append(cases, c04Case{id: fmt.Sprintf("bytes:1:%02x", i), kinds: "all", data: []byte{byte(i)}})
	}
	for bi, b := range bases {
		for i := 1; i < len(b); i++ {
			cases = append(cases, c04Case{id: fmt.Sprintf("prefix:%d:%d", bi, i), kinds: "json", data: b[:i]})
		}
	}
	// gob: valid streams of several values, truncated and with seeded byte flips
	rng := rand.New(rand.NewSource(seed()))
	g := &randGen{rng: rng, gob: true}
	nv := 12
	if tier == "thorough" {
		nv = 60
	}
	for i := 0; i < nv; i++ {
		g.budget = 6
		v := buildItem(normJ(g.object(goTypeNames[i%len(goTypeNames)], 2, false)))
		data, err := ap.GobEncode(v)
		if err != nil || len(data) == 0 {
			continue
		}
		gt := goTypeNames[i%len(goTypeNames)]
		cases = append(cases, c04Case{id: fmt.Sprintf("gob:%d:valid", i), kinds: "gob", data: data, g: gt})
		step := 1
		if len(data) > 300 {
			step = len(data) / 150
		}
		for j := 1; j < len(data); j += step {
			cases = append(cases, c04Case{id: fmt.Sprintf("gob:%d:trunc:%d", i, j), kinds: "gob", data: data[:j], g: gt})
		}
		for f := 0; f < 150; f++ {
			cp := append([]byte{}, data...)
			for k := 0; k < 1+rng.Intn(3); k++ {
				cp[rng.Intn(len(cp))] ^= byte(1 << uint(rng.Intn(8)))
			}
			cases = append(cases, c04Case{id: fmt.Sprintf("gob:%d:flip:%d", i, f), kinds: "gob", data: cp, g: gt})
		}
	}
	// gob: one-property objects nested thousands of levels deep (every level is a byte string inside the map of the level above)
	for _, d := range []int{1000, 4000} {
		data := []byte("http://example.com/x")
		for i := 0; i < d; i++ {
			bb := bytes.Buffer{}
			if err := gob.NewEncoder(&bb).Encode(map[string][]byte{"context": data}); err != nil {
				return nil, err
			}
			data = bb.Bytes()
		}
		cases = append(cases, c04Case{id: fmt.Sprintf("gob:nest:%d", d), kinds: "gob", data: data, g: "Object"})
	}
	return cases, nil
}

func init() {
	// vh c04-child docs.ndjson tier startIndex out.ndjson progressfile offset stride : cases i >= start with i % stride == offset
	register("c04-child", func(args []string) error {
		cases, err := c04Cases(args[0], args[1])
		if err != nil {
			return err
		}
		start, offset, stride := atoi(args[2]), atoi(args[5]), atoi(args[6])
		f, err := os.OpenFile(args[3], os.O_APPEND|os.O_CREATE|os.O_WRONLY, 0o644)
		if err != nil {
			return err
		}
		w := bufio.NewWriterSize(f, 1<<16)
		prog, _ := os.OpenFile(args[4], os.O_CREATE|os.O_WRONLY|os.O_TRUNC, 0o644)
		for i := start; i < len(cases); i++ {
			if i%stride != offset {
				continue
			}
			c := cases[i]
			fmt.Fprintf(prog, "%d\n", i)
			// allocation is measured per case over all its entry points first, per call only when that looks large
			var c0, c1 runtime.MemStats
			runtime.ReadMemStats(&c0)
			measureAlloc = false
			var evs []J
			for ei, ep := range entryPoints {
				if c.kinds != "all" && c.kinds != ep.kind && !(c.kinds == "json" && ep.kind == "text") {
					continue
				}
				// quick tier: the package entry, the entries of the document's own type, and a rotation of the others
				if args[1] != "thorough" && c.g != "" && ei > 1 && !strings.HasPrefix(ep.name, "(*"+c.g+")") && (i+ei)%9 != 0 {
					continue
				}
				ev := c04Call(ep, c.data, c.id)
				// a slow call is measured again (twice) and the fastest kept: load on the machine must not raise an alarm
				for k := 0; k < 2 && num(ev["ms"]) > 300 && ev["outcome"] != "hang"; k++ {
					if again := c04Call(ep, c.data, c.id); num(again["ms"]) < num(ev["ms"]) {
						ev["ms"] = again["ms"]
					}
				}
				evs = append(evs, ev)
				if ev["outcome"] == "hang" {
					// the call is still running in its goroutine and would go on burning a core (or memory) under every later
					// case: report what was seen and let the parent continue with the next case in a fresh process
					for _, ev := range evs {
						b, _ := json.Marshal(ev)
						w.Write(b)
						w.WriteByte('\n')
					}
					w.Flush()
					f.Close()
					fmt.Fprintf(prog, "hung %d\n", i)
					os.Exit(3)
				}
			}
			runtime.ReadMemStats(&c1)
			if int(c1.TotalAlloc-c0.TotalAlloc) > 2000000 {
				measureAlloc = true
				for k, ev := range evs {
					for _, ep := range entryPoints {
						if ep.name == ev["entry"] {
							evs[k]["alloc"] = c04Call(ep, c.data, c.id)["alloc"]
						}
					}
				}
			}
			for _, ev := range evs {
				b, _ := json.Marshal(ev)
				w.Write(b)
				w.WriteByte('\n')
			}
		}
		w.Flush()
		f.Close()
		fmt.Fprintf(prog, "done %d\n", len(cases))
		return nil
	})
	// vh c04-run docs.ndjson tier out.ndjson stats.json : parent, K strided children in parallel, each restarted after a crash
	register("c04-run", func(args []string) error {
		self, _ := os.Executable()
		K := runtime.NumCPU() / 2
		if K < 1 {
			K = 1
		}
		type result struct {
			crashes, total int
			err            error
		}
		results := make(chan result, K)
		for k := 0; k < K; k++ {
			go func(k int) {
				out := fmt.Sprintf("%s.part%d", args[2], k)
				os.Remove(out)
				prog := out + ".progress"
				start, crashes, total, hangs := 0, 0, -1, 0
				for {
					cmd := exec.Command(self, "c04-child", args[0], args[1], fmt.Sprint(start), out, prog, fmt.Sprint(k), fmt.Sprint(K))
					cmd.Env = append(os.Environ(), "GOMAXPROCS=2")
					o, err := cmd.CombinedOutput()
					pb, _ := os.ReadFile(prog)
					lines := strings.Split(strings.TrimSpace(string(pb)), "\n")
					last := lines[len(lines)-1]
					if strings.HasPrefix(last, "done") {
						fmt.Sscanf(last, "done %d", &total)
						break
					}
					if strings.HasPrefix(last, "hung") { // a watchdog expiry: the event is already in the output
						var idx int
						fmt.Sscanf(last, "hung %d", &idx)
						start = idx + 1
						if hangs++; hangs > 400 {
							results <- result{err: fmt.Errorf("more than 400 hanging cases in one stride")}
							return
						}
						continue
					}
					if err == nil {
						results <- result{err: fmt.Errorf("child ended without finishing: %s", string(o))}
						return
					}
					crashes++
					idx := atoi(last)
					msg := string(o)
					if len(msg) > 400 {
						msg = msg[:400]
					}
					f, _ := os.OpenFile(out, os.O_APPEND|os.O_CREATE|os.O_WRONLY, 0o644)
					b, _ := json.Marshal(J{"ev": "dec", "entry": "(process)", "case": fmt.Sprintf("case-index:%d", idx), "len": 0, "outcome": "abort", "ms": 0, "alloc": 0, "follow": []J{}, "msg": msg})
					f.Write(append(append([]byte{'\n'}, b...), '\n')) // the crashed child may have left a partial line
					f.Close()
					start = idx + 1
					if crashes > 30 {
						results <- result{err: fmt.Errorf("too many child crashes")}
						return
					}
				}
				results <- result{crashes: crashes, total: total}
			}(k)
		}
		crashes, total := 0, 0
		for k := 0; k < K; k++ {
			r := <-results
			if r.err != nil {
				return r.err
			}
			crashes += r.crashes
			total = r.total
		}
		// concatenate the parts
		outf, err := os.Create(args[2])
		if err != nil {
			return err
		}
		for k := 0; k < K; k++ {
			part := fmt.Sprintf("%s.part%d", args[2], k)
			b, _ := os.ReadFile(part)
			outf.Write(b)
			os.Remove(part)
			os.Remove(part + ".progress")
		}
		outf.Close()
		st, _ := json.Marshal(J{"cases": total, "crashes": crashes, "entries": len(entryPoints)})
		return writeFile(args[3], st)
	})
}
