package main

// C05: documents written by an independent writer (encoding/json from TLC's tagged trees, or the
// repository's mock documents and mutations of them) through UnmarshalJSON -> MarshalJSON -> ...
// Events for JsonCodecTrace.tla.

import (
	"bytes"
	"encoding/json"
	"fmt"
	"os"
	"path/filepath"
	"regexp"
	"sort"
	"strconv"
	"strings"
	"time"

	ap "github.com/go-ap/activitypub"
)

// ---- tagged tree -> bytes (member order preserved)
func treeToJSON(n J, b *bytes.Buffer) {
	switch n["j"] {
	case "str":
		s, _ := json.Marshal(n["v"].(string))
		b.Write(s)
	case "num":
		if f, ok := n["f"].(string); ok {
			// as encoding/json writes a float64: exponent form below 1e-6 and from 1e21
			if x, err := strconv.ParseFloat(f, 64); err == nil {
				js, _ := json.Marshal(x)
				b.Write(js)
			} else {
				b.WriteString(f)
			}
		} else {
			b.WriteString(strconv.FormatInt(num(n["n"]), 10))
		}
	case "bool":
		if n["b"].(bool) {
			b.WriteString("true")
		} else {
			b.WriteString("false")
		}
	case "null":
		b.WriteString("null")
	case "arr":
		b.WriteByte('[')
		es, _ := n["e"].([]interface{})
		for i, e := range es {
			if i > 0 {
				b.WriteByte(',')
			}
			treeToJSON(e.(map[string]interface{}), b)
		}
		b.WriteByte(']')
	case "obj":
		b.WriteByte('{')
		ms, _ := n["m"].([]interface{})
		for i, m := range ms {
			if i > 0 {
				b.WriteByte(',')
			}
			mm := m.(map[string]interface{})
			k, _ := json.Marshal(mm["k"].(string))
			b.Write(k)
			b.WriteByte(':')
			treeToJSON(mm["n"].(map[string]interface{}), b)
		}
		b.WriteByte('}')
	default:
		panic(fmt.Sprintf("bad node %v", n))
	}
}

var xsdDur = regexp.MustCompile(`^(-)?P(?:(\d+)D)?(?:T(?:(\d+)H)?(?:(\d+)M)?(?:(\d+)S)?)?$`)

func parseXSD(s string) (int64, bool) {
	m := xsdDur.FindStringSubmatch(s)
	if m == nil || s == "P" || s == "-P" || strings.HasSuffix(s, "T") {
		return 0, false
	}
	var tot int64
	mul := []int64{86400, 3600, 60, 1}
	for i, g := range m[2:] {
		if g != "" {
			v, _ := strconv.ParseInt(g, 10, 64)
			tot += v * mul[i]
		}
	}
	if m[1] == "-" {
		tot = -tot
	}
	return tot, true
}

// ---- parsed JSON (order preserving) -> tagged tree with ts/ds annotations
func valueToTree(v interface{}) J {
	switch x := v.(type) {
	case nil:
		return J{"j": "null"}
	case string:
		n := J{"j": "str", "v": x}
		if t, err := time.Parse(time.RFC3339, x); err == nil && t.Unix() > -2147483647 && t.Unix() < 2147483648 { // what a TLC integer can hold
			n["ts"] = t.Unix()
		}
		if d, ok := parseXSD(x); ok {
			n["ds"] = d
		}
		return n
	case bool:
		return J{"j": "bool", "b": x}
	case json.Number:
		neg := strings.HasPrefix(x.String(), "-")
		if i, err := x.Int64(); err == nil && i > -2000000000 && i < 2000000000 && !strings.ContainsAny(x.String(), ".eE") {
			return J{"j": "num", "n": i, "neg": neg}
		}
		f, _ := x.Float64()
		return J{"j": "num", "f": fmtFloat(f), "neg": neg}
	case float64:
		return J{"j": "num", "f": fmtFloat(x)}
	case []interface{}:
		es := make([]J, 0, len(x))
		for _, e := range x {
			es = append(es, valueToTree(e))
		}
		return J{"j": "arr", "e": es}
	case ordObj:
		ms := make([]J, 0, len(x))
		for _, m := range x {
			ms = append(ms, J{"k": m.k, "n": valueToTree(m.v)})
		}
		return J{"j": "obj", "m": ms}
	}
	return J{"j": "null"}
}

func bytesToTree(data []byte) (J, error) {
	dec := json.NewDecoder(bytes.NewReader(data))
	dec.UseNumber()
	v, _, err := parseValue(dec)
	if err != nil {
		return nil, err
	}
	return valueToTree(v), nil
}

func c05Pipeline(w *ndWriter, lab J, doc J, data []byte) {
	ev := J{"ev": "read", "lab": lab, "doc": doc, "err": "", "out1": J{"k": "nil"}, "out2": J{"k": "nil"}, "wire1": J{"j": "none"}, "fix": true, "bytes": string(data)}
	err := safely(func() error {
		d1, e := ap.UnmarshalJSON(data)
		if e != nil {
			return fmt.Errorf("decode: %w", e)
		}
		clobberDecode(len(data)) // a later decode must not disturb the value decoded before
		ev["out1"] = projectItem(d1)
		if d1 == nil {
			return nil
		}
		b1, e := ap.MarshalJSON(d1)
		if e != nil {
			return fmt.Errorf("re-encode: %w", e)
		}
		ev["bytes1"] = string(b1)
		if len(b1) == 0 || string(b1) == "null" {
			return nil
		}
		t1, e := bytesToTree(b1)
		if e != nil {
			return fmt.Errorf("re-encoded bytes do not parse: %w", e)
		}
		ev["wire1"] = t1
		d2, e := ap.UnmarshalJSON(b1)
		if e != nil {
			return fmt.Errorf("decode of re-encoded: %w", e)
		}
		ev["out2"] = projectItem(d2)
		b2, e := ap.MarshalJSON(d2)
		if e != nil {
			return fmt.Errorf("second re-encode: %w", e)
		}
		ev["fix"] = bytes.Equal(b1, b2)
		return nil
	})
	if err != nil {
		ev["err"] = err.Error()
	}
	w.Write(ev)
}

// ---- structure-preserving mutations of a tagged tree
var itemTerms = map[string]bool{"actor": true, "object": true, "target": true, "attributedTo": true, "inReplyTo": true, "to": true, "cc": true,
	"bto": true, "bcc": true, "audience": true, "tag": true, "url": true, "attachment": true, "context": true, "generator": true, "icon": true,
	"image": true, "location": true, "preview": true, "replies": true, "first": true, "last": true, "current": true, "next": true, "prev": true,
	"partOf": true, "items": true, "orderedItems": true, "inbox": true, "outbox": true, "followers": true, "following": true, "liked": true, "likes": true, "shares": true}

func mutate(n J, kind string) J {
	switch n["j"] {
	case "obj":
		ms := n["m"].([]J)
		out := make([]J, 0, len(ms))
		for _, m := range ms {
			k := m["k"].(string)
			c := mutate(m["n"].(J), kind)
			if itemTerms[k] {
				switch kind {
				case "wrap": // single -> array of one
					if c["j"] != "arr" {
						c = J{"j": "arr", "e": []J{c}}
					}
				case "unwrap": // array of one -> single
					if c["j"] == "arr" && len(c["e"].([]J)) == 1 {
						c = c["e"].([]J)[0]
					}
				}
			}
			if kind == "tomap" && (k == "name" || k == "summary" || k == "content") && c["j"] == "str" {
				out = append(out, J{"k": k + "Map", "n": J{"j": "obj", "m": []J{{"k": "en", "n": c}}}})
				continue
			}
			out = append(out, J{"k": k, "n": c})
		}
		if kind == "reverse" {
			for i, j := 0, len(out)-1; i < j; i, j = i+1, j-1 {
				out[i], out[j] = out[j], out[i]
			}
		}
		return J{"j": "obj", "m": out}
	case "arr":
		es := n["e"].([]J)
		out := make([]J, 0, len(es))
		for _, e := range es {
			out = append(out, mutate(e, kind))
		}
		return J{"j": "arr", "e": out}
	}
	return n
}

func init() {
	// vh c05-run docs.ndjson trace.ndjson
	register("c05-run", func(args []string) error {
		w, err := newNDWriter(args[1])
		if err != nil {
			return err
		}
		err = readNDJSON(args[0], func(raw []byte) error {
			var c struct {
				Lab J `json:"lab"`
				Doc J `json:"doc"`
			}
			if err := json.Unmarshal(raw, &c); err != nil {
				return err
			}
			b := bytes.Buffer{}
			treeToJSON(c.Doc, &b)
			c05Pipeline(w, c.Lab, c.Doc, b.Bytes())
			return nil
		})
		if err != nil {
			return err
		}
		return w.Close()
	})
	// vh c02-wire cases.ndjson trace.ndjson : what the library writes for every case value, as a tagged tree
	register("c02-wire", func(args []string) error {
		w, err := newNDWriter(args[1])
		if err != nil {
			return err
		}
		err = readNDJSON(args[0], func(raw []byte) error {
			var c rtCase
			if err := json.Unmarshal(raw, &c); err != nil {
				return err
			}
			if c.V["k"] != "obj" {
				return nil
			}
			it := buildItem(c.V)
			for _, via := range []string{"pkg", "type"} {
				ev := J{"ev": "wire", "via": via, "lab": c.Lab, "in": c.V, "wire": J{"j": "none"}, "err": ""}
				var data []byte
				e := safely(func() error {
					var e error
					if via == "pkg" {
						data, e = ap.MarshalJSON(it)
					} else {
						data, e = it.(json.Marshaler).MarshalJSON()
					}
					return e
				})
				if e != nil {
					ev["err"] = "encode-error"
				} else if t, perr := bytesToTree(data); perr != nil {
					ev["err"] = "invalid-json"
				} else {
					ev["wire"] = t
				}
				ev["bytes"] = string(data)
				w.Write(ev)
			}
			return nil
		})
		if err != nil {
			return err
		}
		return w.Close()
	})
	// vh c05-mocks <dir> trace.ndjson : the repository's mock documents and mutations of them
	register("c05-mocks", func(args []string) error {
		w, err := newNDWriter(args[1])
		if err != nil {
			return err
		}
		files, _ := filepath.Glob(filepath.Join(args[0], "*.json"))
		sort.Strings(files)
		for _, f := range files {
			data, err := os.ReadFile(f)
			if err != nil {
				return err
			}
			tree, err := bytesToTree(data)
			if err != nil {
				continue
			}
			for _, kind := range []string{"orig", "reverse", "wrap", "unwrap", "tomap"} {
				t := normTree(tree)
				if kind != "orig" {
					t = mutate(t, kind)
				}
				b := bytes.Buffer{}
				treeToJSON(normJ(t), &b)
				c05Pipeline(w, J{"fam": "mock", "g": filepath.Base(f), "t": kind, "shape": "mock"}, normJ(t), b.Bytes())
			}
		}
		return w.Close()
	})
}

// normTree converts []interface{}-free typed trees produced by valueToTree into []J form used by mutate
func normTree(n J) J { return n }
