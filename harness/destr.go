package main

// Destructure.tla (growth beyond the listed properties): the callback helpers over single items and lists.

import (
	"encoding/json"
	"errors"
	"reflect"
	"strings"

	ap "github.com/go-ap/activitypub"
)

var destrFns = map[string]interface{}{
	"OnObject": ap.OnObject, "OnActor": ap.OnActor, "OnActivity": ap.OnActivity, "OnIntransitiveActivity": ap.OnIntransitiveActivity,
	"OnQuestion": ap.OnQuestion, "OnPlace": ap.OnPlace, "OnProfile": ap.OnProfile, "OnTombstone": ap.OnTombstone,
	"OnRelationship": ap.OnRelationship, "OnLink": ap.OnLink, "OnCollection": ap.OnCollection, "OnCollectionPage": ap.OnCollectionPage,
	"OnOrderedCollection": ap.OnOrderedCollection, "OnOrderedCollectionPage": ap.OnOrderedCollectionPage,
}

const destrBase = "https://example.com/d/"

// destrItem builds the item an abstract shape describes; objects are pointers labelled by their id
func destrItem(a J, top bool, form string) ap.Item {
	switch a["k"] {
	case "nil":
		return nil
	case "iri":
		return ap.IRI(destrBase + "iri/" + a["n"].(string))
	case "obj":
		v := reflect.New(goTypes[a["g"].(string)])
		v.Elem().FieldByName("ID").SetString(destrBase + a["n"].(string))
		return v.Interface().(ap.Item)
	case "list":
		col := ap.ItemCollection{}
		for _, m := range a["e"].([]interface{}) {
			col = append(col, destrItem(m.(J), false, form))
		}
		if top && form == "pointer" {
			return &col
		}
		return col
	}
	return nil
}

var errDestr = errors.New("callback failed")

func destrCall(h string, it ap.Item, failAt int) (calls []string, failed bool, panicked string) {
	fn := reflect.ValueOf(destrFns[h])
	cbT := fn.Type().In(1)
	errT := reflect.TypeOf((*error)(nil)).Elem()
	calls = []string{}
	cb := reflect.MakeFunc(cbT, func(args []reflect.Value) []reflect.Value {
		label := "nil-view"
		if !args[0].IsNil() {
			label = strings.TrimPrefix(args[0].Elem().FieldByName("ID").String(), destrBase)
		}
		calls = append(calls, label)
		if len(calls) == failAt {
			return []reflect.Value{reflect.ValueOf(&errDestr).Elem()}
		}
		return []reflect.Value{reflect.Zero(errT)}
	})
	arg := reflect.New(fn.Type().In(0)).Elem()
	if it != nil {
		arg.Set(reflect.ValueOf(it))
	}
	panicked = guard(func() {
		out := fn.Call([]reflect.Value{arg, cb})
		failed = !out[0].IsNil()
	})
	return
}

func init() {
	// vh destr-run cases.ndjson trace.ndjson
	register("destr-run", func(args []string) error {
		w, err := newNDWriter(args[1])
		if err != nil {
			return err
		}
		err = readNDJSON(args[0], func(raw []byte) error {
			var c J
			if err := json.Unmarshal(raw, &c); err != nil {
				return err
			}
			it := destrItem(c["item"].(J), true, c["form"].(string))
			calls, failed, p := destrCall(c["h"].(string), it, int(c["failAt"].(float64)))
			w.Write(J{"ev": "on", "h": c["h"], "item": c["item"], "failAt": c["failAt"], "form": c["form"], "calls": calls, "err": failed, "panic": p})
			return nil
		})
		if err != nil {
			return err
		}
		return w.Close()
	})
}
