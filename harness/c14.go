package main

// C14: IRI.Equals on all ordered pairs of the TLC-generated grid (expected verdict = equality of the
// model's normal forms), symmetry/reflexivity on non-URL strings, IRIs.Contains/Append on lists.
// Every disagreement with the model's key, plus a sample of agreements, is written as an event
// for IRITrace.tla, which recomputes Equiv itself.

import (
	"encoding/json"
	"fmt"
	"math/rand"
	"runtime"
	"sync"

	ap "github.com/go-ap/activitypub"
)

type gridIRI struct {
	S  string          `json:"s"`
	C  json.RawMessage `json:"c"`
	N0 json.RawMessage `json:"n0"`
	N1 json.RawMessage `json:"n1"`
	k0 int
	k1 int
}

func iriEq(a, b string, cs bool) (res bool, panicked bool) {
	defer func() {
		if r := recover(); r != nil {
			panicked = true
		}
	}()
	return ap.IRI(a).Equals(ap.IRI(b), cs), false
}

func loadGrid(path string) ([]*gridIRI, error) {
	var grid []*gridIRI
	keys := map[string]int{}
	intern := func(r json.RawMessage) int {
		k, ok := keys[string(r)]
		if !ok {
			k = len(keys)
			keys[string(r)] = k
		}
		return k
	}
	err := readNDJSON(path, func(raw []byte) error {
		g := &gridIRI{}
		if err := json.Unmarshal(raw, g); err != nil {
			return err
		}
		g.k0, g.k1 = intern(g.N0), intern(g.N1)
		grid = append(grid, g)
		return nil
	})
	return grid, err
}

func init() {
	// vh c14-paths cases.ndjson trace.ndjson sampleEvery : AddPath / Contains (growth leg, observations)
	register("c14-paths", func(args []string) error {
		w, err := newNDWriter(args[1])
		if err != nil {
			return err
		}
		every := atoi(args[2])
		n := 0
		err = readNDJSON(args[0], func(raw []byte) error {
			var c struct {
				Ev, S, A, B, Out string
				Els              []string
				Cs, Res          bool
				Ci, Cw           J
			}
			if err := json.Unmarshal(raw, &c); err != nil {
				return err
			}
			n++
			if c.Ev == "addpath" {
				var got string
				p := guard(func() { got = string(ap.IRI(c.S).AddPath(c.Els...)) })
				if p != "" {
					got = "panic: " + p
				}
				els := c.Els
				if els == nil {
					els = []string{}
				}
				w.Write(J{"ev": "addpath", "ci": c.Ci, "els": els, "got": got, "s": c.S})
				return nil
			}
			var got bool
			p := guard(func() { got = ap.IRI(c.A).Contains(ap.IRI(c.B), c.Cs) })
			if p != "" || got != c.Res || n%every == 0 {
				ev := J{"ev": "contains", "ci": c.Ci, "cw": c.Cw, "cs": c.Cs, "got": got, "a": c.A, "b": c.B}
				if p != "" {
					ev["got"] = "panic"
				}
				w.Write(ev)
			}
			return nil
		})
		if err != nil {
			return err
		}
		return w.Close()
	})
	// vh c14-replay grid.ndjson nonurl.ndjson trace.ndjson stats.json <sampleEvery>
	register("c14-replay", func(args []string) error {
		grid, err := loadGrid(args[0])
		if err != nil {
			return err
		}
		sampleEvery := atoi(args[4])
		w, err := newNDWriter(args[2])
		if err != nil {
			return err
		}
		var mu sync.Mutex
		var evals, mismatches int64
		const capMismatch = 4000
		nw := runtime.NumCPU()
		var wg sync.WaitGroup
		for wk := 0; wk < nw; wk++ {
			wg.Add(1)
			go func(wk int) {
				defer wg.Done()
				var local []J
				var n int64
				for i := wk; i < len(grid); i += nw {
					a := grid[i]
					for j, b := range grid {
						for c := 0; c < 2; c++ {
							cs := c == 1
							want := a.k0 == b.k0
							if cs {
								want = a.k1 == b.k1
							}
							got, pn := iriEq(a.S, b.S, cs)
							n++
							if pn || got != want || (i*len(grid)+j)%sampleEvery == 0 {
								ev := J{"ev": "eq", "a": a.C, "b": b.C, "cs": cs, "res": got, "sa": a.S, "sb": b.S}
								if pn {
									ev["res"] = "panic"
								}
								if pn || got != want {
									ev["mismatch"] = true
								}
								local = append(local, ev)
							}
						}
					}
				}
				mu.Lock()
				evals += n
				for _, ev := range local {
					if ev["mismatch"] != nil {
						mismatches++
						if mismatches > capMismatch {
							continue
						}
					}
					w.Write(ev)
				}
				mu.Unlock()
			}(wk)
		}
		wg.Wait()
		// arbitrary strings: reflexive and symmetric
		var strs []string
		err = readNDJSON(args[1], func(raw []byte) error {
			var s struct{ S string }
			if err := json.Unmarshal(raw, &s); err != nil {
				return err
			}
			strs = append(strs, s.S)
			return nil
		})
		if err != nil {
			return err
		}
		// plus a few grid members so that URL-vs-non-URL pairs are included
		for i := 0; i < len(grid); i += len(grid)/7 + 1 {
			strs = append(strs, grid[i].S)
		}
		for _, a := range strs {
			for _, b := range strs {
				for c := 0; c < 2; c++ {
					cs := c == 1
					ab, p1 := iriEq(a, b, cs)
					ba, p2 := iriEq(b, a, cs)
					aa, p3 := iriEq(a, a, cs)
					evals += 3
					ev := J{"ev": "sym", "a": a, "b": b, "cs": cs, "ab": ab, "ba": ba, "aa": aa}
					if p1 || p2 || p3 {
						ev["aa"] = false
						ev["panic"] = true
					}
					w.Write(ev)
				}
			}
		}
		// IRI lists: Contains / Append agree with the relation
		rng := rand.New(rand.NewSource(seed()))
		for t := 0; t < 3000; t++ {
			n := rng.Intn(6)
			lst := ap.IRIs{}
			var lc []json.RawMessage
			// draw from a small neighbourhood so that equivalent presentations meet often
			base := rng.Intn(len(grid))
			pick := func() *gridIRI {
				if rng.Intn(3) == 0 {
					return grid[rng.Intn(len(grid))]
				}
				return grid[(base+rng.Intn(40))%len(grid)]
			}
			for i := 0; i < n; i++ {
				g := pick()
				lst = append(lst, ap.IRI(g.S))
				lc = append(lc, g.C)
			}
			if lc == nil {
				lc = []json.RawMessage{}
			}
			x := pick()
			func() {
				defer func() {
					if r := recover(); r != nil {
						w.Write(J{"ev": "mem", "lst": lc, "x": x.C, "res": "panic"})
					}
				}()
				w.Write(J{"ev": "mem", "lst": lc, "x": x.C, "res": lst.Contains(ap.IRI(x.S))})
				evals++
				// Append on a duplicate-free prefix only (the machine's reachable states)
				cp := append(ap.IRIs{}, lst...)
				_ = cp.Append(ap.IRI(x.S))
				post := make([]json.RawMessage, 0, len(cp))
				for _, e := range cp {
					found := false
					for _, g := range grid {
						if g.S == string(e) {
							post = append(post, g.C)
							found = true
							break
						}
					}
					if !found {
						post = append(post, json.RawMessage(`{"unknown":true}`))
					}
				}
				w.Write(J{"ev": "app", "lst": lc, "x": x.C, "post": post})
				evals++
			}()
		}
		if err := w.Close(); err != nil {
			return err
		}
		st, _ := json.Marshal(J{"evaluations": evals, "mismatches": mismatches, "grid": len(grid), "events": w.n})
		return writeFile(args[3], st)
	})
	// vh c14-one event.json trace.ndjson : re-execute one recorded event from its concrete strings
	register("c14-one", func(args []string) error {
		raw, err := readFile(args[0])
		if err != nil {
			return err
		}
		var ev J
		if err := json.Unmarshal(raw, &ev); err != nil {
			return err
		}
		w, err := newNDWriter(args[1])
		if err != nil {
			return err
		}
		switch ev["ev"] {
		case "eq":
			got, pn := iriEq(ev["sa"].(string), ev["sb"].(string), ev["cs"].(bool))
			ev["res"] = got
			if pn {
				ev["res"] = "panic"
			}
		case "sym":
			a, b, cs := ev["a"].(string), ev["b"].(string), ev["cs"].(bool)
			ev["ab"], _ = iriEq(a, b, cs)
			ev["ba"], _ = iriEq(b, a, cs)
			ev["aa"], _ = iriEq(a, a, cs)
		default:
			return fmt.Errorf("replay of %v events: re-run the check", ev["ev"])
		}
		w.Write(ev)
		return w.Close()
	})
}
