package main

// C11: Clean() on trees with private recipients.  Events for CleanTrace.tla.

import (
	"encoding/json"
	"math/rand"

	ap "github.com/go-ap/activitypub"
)

var cleanWalked = []string{"audience", "attachment", "icon", "image", "context", "generator", "attributedTo", "preview", "tag"}

func isTransitiveActivityType(t string) bool {
	for _, n := range typeNamesFor["Activity"] {
		if n == t {
			return true
		}
	}
	return false
}

// jsonLeaks counts bto/bcc members along the walked terms of a parsed JSON document
func jsonLeaks(v interface{}) int {
	switch x := v.(type) {
	case []interface{}:
		n := 0
		for _, e := range x {
			n += jsonLeaks(e)
		}
		return n
	case map[string]interface{}:
		n := 0
		if t, _ := x["type"].(string); t == "Link" || t == "Mention" {
			return 0 // a Link is not an object: it has no recipients and Clean() does not walk its preview
		}
		if _, ok := x["bto"]; ok {
			n++
		}
		if _, ok := x["bcc"]; ok {
			n++
		}
		terms := cleanWalked
		if t, _ := x["type"].(string); isTransitiveActivityType(t) {
			terms = append(append([]string{}, cleanWalked...), "object", "actor", "target")
		}
		for _, t := range terms {
			if c, ok := x[t]; ok {
				n += jsonLeaks(c)
			}
		}
		return n
	}
	return 0
}

func c11Run(w *ndWriter, lab J, pre J) {
	it := buildItem(pre)
	ev := J{"ev": "clean", "lab": lab, "pre": pre, "panic": false, "jsonleaks": 0}
	p := guard(func() {
		if hr, ok := it.(ap.HasRecipients); ok {
			hr.Clean()
		} else if l, ok := it.(ap.ItemCollection); ok {
			l.Clean()
		} else {
			panic("value does not offer Clean()")
		}
	})
	if p != "" {
		ev["panic"], ev["msg"], ev["post"] = true, p, J{"k": "nil"}
		w.Write(ev)
		return
	}
	ev["post"] = projectItem(it)
	if b, err := ap.MarshalJSON(it); err == nil {
		var doc interface{}
		if json.Unmarshal(b, &doc) == nil {
			ev["jsonleaks"] = jsonLeaks(doc)
		}
	}
	w.Write(ev)
}

func init() {
	register("c11-replay", func(args []string) error {
		w, err := newNDWriter(args[1])
		if err != nil {
			return err
		}
		err = readNDJSON(args[0], func(raw []byte) error {
			var c rtCase
			if err := json.Unmarshal(raw, &c); err != nil {
				return err
			}
			c11Run(w, c.Lab, c.V)
			return nil
		})
		if err != nil {
			return err
		}
		return w.Close()
	})
	// vh c11-drive <n> <depth> trace.ndjson
	register("c11-drive", func(args []string) error {
		n, depth := atoi(args[0]), atoi(args[1])
		w, err := newNDWriter(args[2])
		if err != nil {
			return err
		}
		g := &randGen{rng: rand.New(rand.NewSource(seed()))}
		roots := []string{"Object", "Actor", "Activity", "IntransitiveActivity", "Question", "Collection", "CollectionPage", "OrderedCollection",
			"OrderedCollectionPage", "Place", "Profile", "Relationship", "Tombstone"}
		generic := map[string]string{"Activity": "Create"}
		for i := 0; i < n; i++ {
			gt := roots[i%len(roots)]
			g.budget = 14
			v := g.object(gt, depth, false)
			var fix func(x J)
			fix = func(x J) { // the generic name "Activity" is not a transitive activity type for the walk oracle
				if x["k"] == "obj" {
					p := x["p"].(J)
					if t, ok := p["type"].(J); ok {
						if r, ok := generic[t["s"].(string)]; ok {
							t["s"] = r
						}
					}
					for _, c := range p {
						if cj, ok := c.(J); ok {
							fix(cj)
						}
					}
				} else if x["k"] == "list" {
					for _, e := range x["e"].([]J) {
						fix(e)
					}
				}
			}
			fix(v)
			c11Run(w, J{"fam": "random", "g": gt}, normJ(v))
		}
		return w.Close()
	})
}
