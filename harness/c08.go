package main

// C08 dynamic leg: every To* helper x every struct type x {value, pointer}: fields read through the view
// must equal the source's, writes through a pointer view must reach the source, and a view must not be
// wider than its source.  Each combination runs in a child process built with -d=checkptr (aborts are fatal).

import (
	"encoding/json"
	"errors"
	"fmt"
	"os"
	"os/exec"
	"reflect"
	"strings"
	"time"

	ap "github.com/go-ap/activitypub"
)

var toFuncs = map[string]func(ap.Item) (interface{}, error){
	"ToObject":                func(it ap.Item) (interface{}, error) { return ap.ToObject(it) },
	"ToActor":                 func(it ap.Item) (interface{}, error) { return ap.ToActor(it) },
	"ToActivity":              func(it ap.Item) (interface{}, error) { return ap.ToActivity(it) },
	"ToIntransitiveActivity":  func(it ap.Item) (interface{}, error) { return ap.ToIntransitiveActivity(it) },
	"ToQuestion":              func(it ap.Item) (interface{}, error) { return ap.ToQuestion(it) },
	"ToCollection":            func(it ap.Item) (interface{}, error) { return ap.ToCollection(it) },
	"ToCollectionPage":        func(it ap.Item) (interface{}, error) { return ap.ToCollectionPage(it) },
	"ToOrderedCollection":     func(it ap.Item) (interface{}, error) { return ap.ToOrderedCollection(it) },
	"ToOrderedCollectionPage": func(it ap.Item) (interface{}, error) { return ap.ToOrderedCollectionPage(it) },
	"ToPlace":                 func(it ap.Item) (interface{}, error) { return ap.ToPlace(it) },
	"ToProfile":               func(it ap.Item) (interface{}, error) { return ap.ToProfile(it) },
	"ToRelationship":          func(it ap.Item) (interface{}, error) { return ap.ToRelationship(it) },
	"ToTombstone":             func(it ap.Item) (interface{}, error) { return ap.ToTombstone(it) },
	"ToLink":                  func(it ap.Item) (interface{}, error) { return ap.ToLink(it) },
	// the callback helpers: the view is what the callback receives
	"OnObject": func(it ap.Item) (interface{}, error) {
		var v *ap.Object
		return onResult(&v, ap.OnObject(it, func(o *ap.Object) error { v = o; return errSeen }))
	},
	"OnActor": func(it ap.Item) (interface{}, error) {
		var v *ap.Actor
		return onResult(&v, ap.OnActor(it, func(o *ap.Actor) error { v = o; return errSeen }))
	},
	"OnActivity": func(it ap.Item) (interface{}, error) {
		var v *ap.Activity
		return onResult(&v, ap.OnActivity(it, func(o *ap.Activity) error { v = o; return errSeen }))
	},
	"OnIntransitiveActivity": func(it ap.Item) (interface{}, error) {
		var v *ap.IntransitiveActivity
		return onResult(&v, ap.OnIntransitiveActivity(it, func(o *ap.IntransitiveActivity) error { v = o; return errSeen }))
	},
	"OnQuestion": func(it ap.Item) (interface{}, error) {
		var v *ap.Question
		return onResult(&v, ap.OnQuestion(it, func(o *ap.Question) error { v = o; return errSeen }))
	},
	"OnCollection": func(it ap.Item) (interface{}, error) {
		var v *ap.Collection
		return onResult(&v, ap.OnCollection(it, func(o *ap.Collection) error { v = o; return errSeen }))
	},
	"OnCollectionPage": func(it ap.Item) (interface{}, error) {
		var v *ap.CollectionPage
		return onResult(&v, ap.OnCollectionPage(it, func(o *ap.CollectionPage) error { v = o; return errSeen }))
	},
	"OnOrderedCollection": func(it ap.Item) (interface{}, error) {
		var v *ap.OrderedCollection
		return onResult(&v, ap.OnOrderedCollection(it, func(o *ap.OrderedCollection) error { v = o; return errSeen }))
	},
	"OnOrderedCollectionPage": func(it ap.Item) (interface{}, error) {
		var v *ap.OrderedCollectionPage
		return onResult(&v, ap.OnOrderedCollectionPage(it, func(o *ap.OrderedCollectionPage) error { v = o; return errSeen }))
	},
	"OnPlace": func(it ap.Item) (interface{}, error) {
		var v *ap.Place
		return onResult(&v, ap.OnPlace(it, func(o *ap.Place) error { v = o; return errSeen }))
	},
	"OnProfile": func(it ap.Item) (interface{}, error) {
		var v *ap.Profile
		return onResult(&v, ap.OnProfile(it, func(o *ap.Profile) error { v = o; return errSeen }))
	},
	"OnRelationship": func(it ap.Item) (interface{}, error) {
		var v *ap.Relationship
		return onResult(&v, ap.OnRelationship(it, func(o *ap.Relationship) error { v = o; return errSeen }))
	},
	"OnTombstone": func(it ap.Item) (interface{}, error) {
		var v *ap.Tombstone
		return onResult(&v, ap.OnTombstone(it, func(o *ap.Tombstone) error { v = o; return errSeen }))
	},
	"OnLink": func(it ap.Item) (interface{}, error) {
		var v *ap.Link
		return onResult(&v, ap.OnLink(it, func(o *ap.Link) error { v = o; return errSeen }))
	},
}

// errSeen is returned by the capturing callbacks: a helper must hand the callback's error back to its caller
var errSeen = errors.New("callback ran")

// onResult: the view a callback helper presented (nil pointer when the callback never ran)
func onResult(view interface{}, err error) (interface{}, error) {
	v := reflect.ValueOf(view).Elem()
	if v.IsNil() {
		if err == nil {
			return nil, errors.New("silent: no callback, no error")
		}
		return nil, err
	}
	if err != errSeen {
		return nil, fmt.Errorf("callback-error-lost: %v", err)
	}
	return v.Interface(), nil
}

func fillValue(fv reflect.Value, tag string) {
	switch kindOfField(fv.Type()) {
	case "item":
		fv.Set(reflect.ValueOf(ap.IRI("https://example.com/f/" + tag)))
	case "items":
		fv.Set(reflect.ValueOf(ap.ItemCollection{ap.IRI("https://example.com/l/" + tag)}))
	case "nlv":
		fv.Set(reflect.ValueOf(ap.NaturalLanguageValues{{Ref: "en", Value: ap.Content("text " + tag)}}))
	case "time":
		fv.Set(reflect.ValueOf(time.Unix(1700000000+int64(len(tag))*1000+int64(tag[len(tag)-1]), 0).UTC()))
	case "dur":
		fv.SetInt(int64(len(tag))*1000 + int64(tag[len(tag)-1]))
	case "str":
		fv.SetString("s-" + tag)
	case "bool":
		fv.SetBool(true)
	case "float":
		fv.SetFloat(float64(len(tag)) + 0.5)
	case "int":
		if fv.Kind() == reflect.Uint {
			fv.SetUint(uint64(100 + len(tag)))
		} else {
			fv.SetInt(int64(-100 - len(tag)))
		}
	case "source":
		fv.Set(reflect.ValueOf(ap.Source{Content: ap.NaturalLanguageValues{{Ref: "-", Value: ap.Content("src " + tag)}}, MediaType: "text/plain"}))
	case "endpoints":
		fv.Set(reflect.ValueOf(&ap.Endpoints{SharedInbox: ap.IRI("https://example.com/ep/" + tag)}))
	case "pubkey":
		fv.Set(reflect.ValueOf(ap.PublicKey{ID: ap.IRI("https://example.com/k/" + tag), PublicKeyPem: "pem"}))
	}
}

// isIRIByAssertion: does COMPILED code see an IRI in this interface-typed field?  (x.(IRI) on a non-empty interface compares
// itab pointers, so a value stored through a field of another named interface type is not recognised)
func isIRIByAssertion(f reflect.Value) bool {
	if f.Kind() != reflect.Interface || !f.CanAddr() {
		return false
	}
	// (every interface-typed field of the vocabulary structs is declared as Item; a field of another named interface type
	//  does not match here and is therefore reported when its counterpart does)
	if p, ok := f.Addr().Interface().(*ap.Item); ok {
		_, isIRI := (*p).(ap.IRI)
		return isIRI
	}
	return false
}

func alias(n string) string {
	if n == "OrderedItems" {
		return "Items"
	}
	return n
}

func c08One(fn, gt, form string) J {
	res := J{"ev": "view", "fn": fn, "from": gt, "form": form, "outcome": "", "to": "", "bad": []string{}}
	t := goTypes[gt]
	src := reflect.New(t)
	for i := 0; i < t.NumField(); i++ {
		fillValue(src.Elem().Field(i), t.Field(i).Name)
	}
	var it ap.Item
	if form == "pointer" {
		it = src.Interface().(ap.Item)
	} else {
		it = src.Elem().Interface().(ap.Item)
	}
	var view interface{}
	var err error
	if p := guard(func() { view, err = toFuncs[fn](it) }); p != "" {
		res["outcome"] = "panic"
		res["msg"] = p
		return res
	}
	if err != nil {
		res["outcome"] = "refused"
		if m := err.Error(); strings.HasPrefix(m, "silent:") {
			res["outcome"] = "silent"
		} else if strings.HasPrefix(m, "callback-error-lost:") {
			res["outcome"] = "error-lost"
		}
		return res
	}
	vv := reflect.ValueOf(view)
	if vv.Kind() != reflect.Ptr || vv.IsNil() {
		res["outcome"] = "refused"
		return res
	}
	res["outcome"] = "view"
	vt := vv.Elem().Type()
	res["to"] = vt.Name()
	bad := []string{}
	if vt.Size() > t.Size() {
		bad = append(bad, fmt.Sprintf("wider:%d>%d", vt.Size(), t.Size()))
	}
	for i := 0; i < vt.NumField(); i++ {
		name := vt.Field(i).Name
		var sf reflect.Value
		for j := 0; j < t.NumField(); j++ {
			if alias(t.Field(j).Name) == alias(name) {
				sf = src.Elem().Field(j)
			}
		}
		if !sf.IsValid() {
			bad = append(bad, "not-in-source:"+name)
			continue
		}
		var got interface{}
		if p := guard(func() { got = vv.Elem().Field(i).Interface() }); p != "" {
			bad = append(bad, "read-panic:"+name)
			continue
		}
		if !reflect.DeepEqual(got, sf.Interface()) {
			bad = append(bad, "read-differs:"+name)
		}
		// an item read through the view must still be what compiled code takes it for (reflection re-packs interface values
		// and cannot see a foreign itab)
		if !isIRIByAssertion(vv.Elem().Field(i)) && isIRIByAssertion(sf) {
			bad = append(bad, "read-loses-dynamic-type:"+name)
		}
		// writes through a view of a pointer are seen by the original
		if form == "pointer" && vt.Size() <= t.Size() {
			fillValue(vv.Elem().Field(i), "w"+name)
			if !reflect.DeepEqual(vv.Elem().Field(i).Interface(), sf.Interface()) {
				bad = append(bad, "write-not-seen:"+name)
			}
			if isIRIByAssertion(vv.Elem().Field(i)) && !isIRIByAssertion(sf) {
				bad = append(bad, "write-loses-dynamic-type:"+name)
			}
		}
	}
	res["bad"] = bad
	return res
}

func init() {
	register("c08-one", func(args []string) error {
		b, _ := json.Marshal(c08One(args[0], args[1], args[2]))
		fmt.Println(string(b))
		return nil
	})
	// vh c08-dyn trace.ndjson : spawns one child per combination (the binary must be built with -d=checkptr)
	register("c08-dyn", func(args []string) error {
		w, err := newNDWriter(args[0])
		if err != nil {
			return err
		}
		self, _ := os.Executable()
		var fns []string
		for fn := range toFuncs {
			fns = append(fns, fn)
		}
		sortStrings(fns)
		for _, fn := range fns {
			for _, gt := range goTypeNames {
				for _, form := range []string{"pointer", "value"} {
					out, err := exec.Command(self, "c08-one", fn, gt, form).CombinedOutput()
					var ev J
					line := strings.TrimSpace(string(out))
					if i := strings.LastIndex(line, "\n"); i >= 0 && err == nil {
						line = line[i+1:]
					}
					if err != nil || json.Unmarshal([]byte(line), &ev) != nil {
						msg := string(out)
						if len(msg) > 300 {
							msg = msg[:300]
						}
						ev = J{"ev": "view", "fn": fn, "from": gt, "form": form, "outcome": "abort", "to": "", "bad": []string{}, "msg": msg}
					}
					w.Write(ev)
				}
			}
		}
		return w.Close()
	})
}

func sortStrings(s []string) {
	for i := range s {
		for j := i + 1; j < len(s); j++ {
			if s[j] < s[i] {
				s[i], s[j] = s[j], s[i]
			}
		}
	}
}
