package main

// C18: CopyItemProperties on (to, from) pairs.  Events for CopyTrace.tla.

import (
	"encoding/json"
	"math/rand"

	ap "github.com/go-ap/activitypub"
)

func c18Run(w *ndWriter, to, from J) {
	bt, bf := buildItem(to), buildItem(from)
	// the observed state before the call (the projection maps empty to unset, as the documented normal form does)
	preTo, preFrom := projectItem(bt), projectItem(bf)
	var err error
	p := guard(func() { _, err = ap.CopyItemProperties(bt, bf) })
	w.Write(J{"ev": "copy", "to": preTo, "from": preFrom, "post_to": projectItem(bt), "post_from": projectItem(bf), "err": err != nil, "panic": p != "", "msg": p})
}

func init() {
	register("c18-replay", func(args []string) error {
		w, err := newNDWriter(args[1])
		if err != nil {
			return err
		}
		err = readNDJSON(args[0], func(raw []byte) error {
			var c struct{ To, From J }
			if err := json.Unmarshal(raw, &c); err != nil {
				return err
			}
			c18Run(w, c.To, c.From)
			return nil
		})
		if err != nil {
			return err
		}
		return w.Close()
	})
	// vh c18-drive <n> trace.ndjson : random independent subsets on both sides, same id and type
	register("c18-drive", func(args []string) error {
		n := atoi(args[0])
		w, err := newNDWriter(args[1])
		if err != nil {
			return err
		}
		g := &randGen{rng: rand.New(rand.NewSource(seed()))}
		types := []string{"Object", "Place", "Profile", "Relationship", "Tombstone", "Actor", "Collection", "CollectionPage", "OrderedCollection", "OrderedCollectionPage"}
		for i := 0; i < n; i++ {
			gt := types[i%len(types)]
			g.budget = 6
			a := g.object(gt, 1, false)
			g.budget = 6
			b := g.object(gt, 1, false)
			// the generic names Object/Actor are not among the types the helper documents as supported
			if t := a["p"].(J)["type"].(J); t["s"] == "Object" {
				t["s"] = "Note"
			} else if t["s"] == "Actor" {
				t["s"] = "Person"
			}
			// same identity on both sides
			b["p"].(J)["id"] = a["p"].(J)["id"]
			b["p"].(J)["type"] = a["p"].(J)["type"]
			c18Run(w, normJ(a), normJ(b))
		}
		return w.Close()
	})
}
