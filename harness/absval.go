package main

// absval: abstract value <-> Go value, by reflection only.
//
// The abstract value is the JSON form of the value domain of spec/Values.tla:
//   item      {"k":"nil"} | {"k":"iri","iri":S} | {"k":"obj","g":GoType,"ptr":B,"p":{term:propval}}
//             | {"k":"list","e":[item]} | {"k":"iris","e":[S]}
//   propval   item | {"k":"nlv","e":[{"r":tag,"t":text}]} | {"k":"time","s":unix,"ns":N,"off":secondsEast}
//             | {"k":"dur","s":seconds,"ns":N} | {"k":"int","n":N} | {"k":"float","f":decimal} | {"k":"bool","b":B}
//             | {"k":"str","s":S} | {"k":"source","p":{..}} | {"k":"endpoints","p":{..}} | {"k":"pubkey","p":{..}}
// Fields are located through their `jsonld:"term"` struct tag.  Neither direction uses any
// method of the library (no MarshalJSON, Equals, GetLink, ...), so the oracle path shares
// no code with the code under test.

import (
	"fmt"
	"math"
	"reflect"
	"sort"
	"strconv"
	"strings"
	"time"

	ap "github.com/go-ap/activitypub"
)

var goTypes = map[string]reflect.Type{
	"Object": reflect.TypeOf(ap.Object{}), "Actor": reflect.TypeOf(ap.Actor{}), "Activity": reflect.TypeOf(ap.Activity{}),
	"IntransitiveActivity": reflect.TypeOf(ap.IntransitiveActivity{}), "Question": reflect.TypeOf(ap.Question{}),
	"Collection": reflect.TypeOf(ap.Collection{}), "CollectionPage": reflect.TypeOf(ap.CollectionPage{}),
	"OrderedCollection": reflect.TypeOf(ap.OrderedCollection{}), "OrderedCollectionPage": reflect.TypeOf(ap.OrderedCollectionPage{}),
	"Place": reflect.TypeOf(ap.Place{}), "Profile": reflect.TypeOf(ap.Profile{}), "Relationship": reflect.TypeOf(ap.Relationship{}),
	"Tombstone": reflect.TypeOf(ap.Tombstone{}), "Link": reflect.TypeOf(ap.Link{}),
}

var goTypeNames = func() []string {
	n := make([]string, 0, len(goTypes))
	for k := range goTypes {
		n = append(n, k)
	}
	sort.Strings(n)
	return n
}()

var (
	tItem   = reflect.TypeOf((*ap.Item)(nil)).Elem()
	tItems  = reflect.TypeOf(ap.ItemCollection{})
	tIRIs   = reflect.TypeOf(ap.IRIs{})
	tNLV    = reflect.TypeOf(ap.NaturalLanguageValues{})
	tTime   = reflect.TypeOf(time.Time{})
	tDur    = reflect.TypeOf(time.Duration(0))
	tSource = reflect.TypeOf(ap.Source{})
	tEndp   = reflect.TypeOf(&ap.Endpoints{})
	tPubKey = reflect.TypeOf(ap.PublicKey{})
	tIRI    = reflect.TypeOf(ap.IRI(""))
)

func termOf(f reflect.StructField) string {
	tag := f.Tag.Get("jsonld")
	if tag == "" {
		return f.Name
	}
	if i := strings.Index(tag, ","); i >= 0 {
		tag = tag[:i]
	}
	return tag
}

// fieldByTerm finds the struct field carrying a term
func fieldByTerm(t reflect.Type, term string) (reflect.StructField, bool) {
	for i := 0; i < t.NumField(); i++ {
		if termOf(t.Field(i)) == term {
			return t.Field(i), true
		}
	}
	return reflect.StructField{}, false
}

// kindOfField classifies a Go field type into the kinds of Vocab.tla
func kindOfField(t reflect.Type) string {
	switch {
	case t == tItems:
		return "items"
	case t == tNLV:
		return "nlv"
	case t == tTime:
		return "time"
	case t == tDur:
		return "dur"
	case t == tSource:
		return "source"
	case t == tEndp:
		return "endpoints"
	case t == tPubKey:
		return "pubkey"
	case t.Kind() == reflect.Interface:
		return "item"
	case t.Kind() == reflect.String:
		return "str"
	case t.Kind() == reflect.Bool:
		return "bool"
	case t.Kind() == reflect.Float64:
		return "float"
	case t.Kind() == reflect.Uint, t.Kind() == reflect.Int64, t.Kind() == reflect.Int:
		return "int"
	}
	return "?" + t.String()
}

// ---------------------------------------------------------------- Build

func num(v interface{}) int64 {
	switch n := v.(type) {
	case float64:
		return int64(n)
	case int:
		return int64(n)
	case int64:
		return n
	case nil:
		return 0
	}
	panic(fmt.Sprintf("not a number: %v", v))
}

func buildItem(a J) ap.Item {
	if a == nil {
		return nil
	}
	switch a["k"] {
	case "nil":
		if as, ok := a["as"].(string); ok && as != "" { // typed nil pointer
			if as == "IRI" {
				return (*ap.IRI)(nil)
			}
			return reflect.Zero(reflect.PtrTo(goTypes[as])).Interface().(ap.Item)
		}
		return nil
	case "iri":
		if p, _ := a["ptr"].(bool); p {
			i := ap.IRI(a["iri"].(string))
			return &i
		}
		return ap.IRI(a["iri"].(string))
	case "obj":
		t, ok := goTypes[a["g"].(string)]
		if !ok {
			panic("unknown go type " + a["g"].(string))
		}
		v := reflect.New(t)
		if p, ok := a["p"].(map[string]interface{}); ok {
			buildStruct(v.Elem(), p)
		}
		if ptr, _ := a["ptr"].(bool); ptr {
			return v.Interface().(ap.Item)
		}
		return v.Elem().Interface().(ap.Item)
	case "list":
		return buildList(a)
	case "iris":
		es, _ := a["e"].([]interface{})
		l := make(ap.IRIs, 0, len(es))
		for _, e := range es {
			l = append(l, ap.IRI(e.(string)))
		}
		return l
	}
	panic(fmt.Sprintf("unknown item kind %v", a["k"]))
}

func buildList(a J) ap.ItemCollection {
	es, _ := a["e"].([]interface{})
	l := make(ap.ItemCollection, 0, len(es))
	for _, e := range es {
		l = append(l, buildItem(e.(map[string]interface{})))
	}
	return l
}

func buildNLV(a J) ap.NaturalLanguageValues {
	es, _ := a["e"].([]interface{})
	n := make(ap.NaturalLanguageValues, 0, len(es))
	for _, e := range es {
		m := e.(map[string]interface{})
		n = append(n, ap.LangRefValue{Ref: ap.LangRef(m["r"].(string)), Value: ap.Content(m["t"].(string))})
	}
	return n
}

func buildStruct(v reflect.Value, p map[string]interface{}) {
	t := v.Type()
	for term, raw := range p {
		f, ok := fieldByTerm(t, term)
		if !ok {
			panic(fmt.Sprintf("%s has no field for term %q", t.Name(), term))
		}
		setField(v.FieldByIndex(f.Index), raw.(map[string]interface{}))
	}
}

func setField(fv reflect.Value, a J) {
	ft := fv.Type()
	switch kindOfField(ft) {
	case "item":
		it := buildItem(a)
		if it != nil {
			fv.Set(reflect.ValueOf(it))
		}
	case "items":
		fv.Set(reflect.ValueOf(buildList(a)))
	case "nlv":
		fv.Set(reflect.ValueOf(buildNLV(a)))
	case "time":
		loc := time.UTC
		if off := num(a["off"]); off != 0 {
			loc = time.FixedZone("", int(off))
		}
		fv.Set(reflect.ValueOf(time.Unix(num(a["s"]), num(a["ns"])).In(loc)))
	case "dur":
		fv.SetInt(num(a["s"])*int64(time.Second) + num(a["ns"]))
	case "str":
		fv.SetString(a["s"].(string))
	case "bool":
		fv.SetBool(a["b"].(bool))
	case "float":
		f, err := strconv.ParseFloat(a["f"].(string), 64)
		if err != nil {
			panic(err)
		}
		fv.SetFloat(f)
	case "int":
		if big, ok := a["s"].(string); ok {
			if fv.Kind() == reflect.Uint {
				u, err := strconv.ParseUint(big, 10, 64)
				if err != nil {
					panic(err)
				}
				fv.SetUint(u)
			} else {
				i, err := strconv.ParseInt(big, 10, 64)
				if err != nil {
					panic(err)
				}
				fv.SetInt(i)
			}
			return
		}
		if fv.Kind() == reflect.Uint {
			fv.SetUint(uint64(num(a["n"])))
		} else {
			fv.SetInt(num(a["n"]))
		}
	case "source", "pubkey":
		buildStruct(fv, a["p"].(map[string]interface{}))
	case "endpoints":
		e := reflect.New(ft.Elem())
		buildStruct(e.Elem(), a["p"].(map[string]interface{}))
		fv.Set(e)
	default:
		panic("cannot set field of type " + ft.String())
	}
}

// ---------------------------------------------------------------- Project

// recognisedByCompiledCode: x.(T) on a non-empty interface compares itab pointers, so the dynamic type reflection reports and the
// type compiled assertions recognise can differ when the interface word was stored through an unsafe view. Only addressable fields
// declared as Item can be examined; everything else is taken as recognised.
func recognisedByCompiledCode(fv reflect.Value) bool {
	if !fv.CanAddr() {
		return true
	}
	p, ok := fv.Addr().Interface().(*ap.Item)
	if !ok {
		return fv.Type().Name() == "" // a field of another NAMED interface type cannot hold what an Item field holds
	}
	switch (*p).(type) {
	case ap.IRI, *ap.IRI, ap.IRIs, *ap.IRIs, ap.ItemCollection, *ap.ItemCollection,
		ap.Object, *ap.Object, ap.Actor, *ap.Actor, ap.Activity, *ap.Activity, ap.IntransitiveActivity, *ap.IntransitiveActivity,
		ap.Question, *ap.Question, ap.Collection, *ap.Collection, ap.CollectionPage, *ap.CollectionPage,
		ap.OrderedCollection, *ap.OrderedCollection, ap.OrderedCollectionPage, *ap.OrderedCollectionPage,
		ap.Place, *ap.Place, ap.Profile, *ap.Profile, ap.Relationship, *ap.Relationship, ap.Tombstone, *ap.Tombstone, ap.Link, *ap.Link:
		return true
	}
	_, known := goTypes[reflect.Indirect(fv.Elem()).Type().Name()]
	return !known // a type foreign to the vocabulary is reported as foreign by projectItem itself
}

func projectItem(it interface{}) J {
	if it == nil {
		return J{"k": "nil"}
	}
	v := reflect.ValueOf(it)
	ptr := false
	if v.Kind() == reflect.Ptr {
		if v.IsNil() {
			return J{"k": "nil", "as": v.Type().Elem().Name()}
		}
		ptr = true
		v = v.Elem()
	}
	t := v.Type()
	switch {
	case t == tIRI:
		return J{"k": "iri", "iri": v.String()}
	case t == tItems:
		return projectList(v)
	case t == tIRIs:
		es := make([]string, 0, v.Len())
		for i := 0; i < v.Len(); i++ {
			es = append(es, v.Index(i).String())
		}
		return J{"k": "iris", "e": es}
	case t.Kind() == reflect.Struct:
		if _, ok := goTypes[t.Name()]; !ok {
			return J{"k": "foreign", "g": t.String()}
		}
		return J{"k": "obj", "g": t.Name(), "ptr": ptr, "p": projectStruct(v)}
	}
	return J{"k": "foreign", "g": t.String()}
}

func projectList(v reflect.Value) J {
	es := make([]J, 0, v.Len())
	for i := 0; i < v.Len(); i++ {
		es = append(es, projectItem(v.Index(i).Interface()))
	}
	return J{"k": "list", "e": es}
}

func projectStruct(v reflect.Value) J {
	p := J{}
	t := v.Type()
	for i := 0; i < t.NumField(); i++ {
		if a := projectField(v.Field(i)); a != nil {
			p[termOf(t.Field(i))] = a
		}
	}
	return p
}

// projectField returns nil for the zero/empty value (the "unset" normal form)
func projectField(fv reflect.Value) J {
	switch kindOfField(fv.Type()) {
	case "item":
		if fv.IsNil() {
			return nil
		}
		if !recognisedByCompiledCode(fv) {
			// reflection sees a vocabulary value, compiled type assertions on the field do not (an interface word written through a
			// field of another named interface type): for every user of the library this is not that value
			// (kept inside the specifications' value domain: an IRI no expected value can be equal to)
			return J{"k": "iri", "iri": "!unassertable-interface-value:" + fv.Elem().Type().String()}
		}
		a := projectItem(fv.Interface())
		if a["k"] == "nil" {
			return nil // a typed nil pointer holds nothing: unset
		}
		if es, ok := a["e"].([]J); ok && len(es) == 0 && (a["k"] == "list") {
			return nil // an empty list is the empty normal form: unset
		}
		if es, ok := a["e"].([]string); ok && len(es) == 0 && a["k"] == "iris" {
			return nil
		}
		return a
	case "items":
		if fv.Len() == 0 {
			return nil
		}
		return projectList(fv)
	case "nlv":
		if fv.Len() == 0 {
			return nil
		}
		es := make([]J, 0, fv.Len())
		for i := 0; i < fv.Len(); i++ {
			e := fv.Index(i)
			es = append(es, J{"r": e.Field(0).String(), "t": string(e.Field(1).Bytes())})
		}
		return J{"k": "nlv", "e": es}
	case "time":
		tm := fv.Interface().(time.Time)
		if tm.IsZero() {
			return nil
		}
		_, off := tm.Zone()
		return J{"k": "time", "s": tm.Unix(), "ns": tm.Nanosecond(), "off": off}
	case "dur":
		d := fv.Int()
		if d == 0 {
			return nil
		}
		return J{"k": "dur", "s": d / int64(time.Second), "ns": d % int64(time.Second)}
	case "str":
		if fv.Len() == 0 {
			return nil
		}
		return J{"k": "str", "s": fv.String()}
	case "bool":
		if !fv.Bool() {
			return nil
		}
		return J{"k": "bool", "b": true}
	case "float":
		f := fv.Float()
		if f == 0 {
			return nil
		}
		return J{"k": "float", "f": fmtFloat(f)}
	case "int":
		var n int64
		if fv.Kind() == reflect.Uint {
			n = int64(fv.Uint())
		} else {
			n = fv.Int()
		}
		if fv.Kind() == reflect.Uint && fv.Uint() > 2147483647 {
			// beyond what a TLC integer holds: carried as decimal text (records are compared structurally)
			return J{"k": "int", "n": 0, "s": strconv.FormatUint(fv.Uint(), 10)}
		}
		if n > 2147483647 || n < -2147483647 {
			return J{"k": "int", "n": 0, "s": strconv.FormatInt(n, 10)}
		}
		if n == 0 {
			return nil
		}
		return J{"k": "int", "n": n}
	case "source", "pubkey":
		p := projectStruct(fv)
		if len(p) == 0 {
			return nil
		}
		return J{"k": kindOfField(fv.Type()), "p": p}
	case "endpoints":
		if fv.IsNil() {
			return nil
		}
		p := projectStruct(fv.Elem())
		if len(p) == 0 {
			return nil
		}
		return J{"k": "endpoints", "p": p}
	}
	return J{"k": "foreign", "g": fv.Type().String()}
}

func fmtFloat(f float64) string {
	if math.IsNaN(f) || math.IsInf(f, 0) {
		return "nan"
	}
	return strconv.FormatFloat(f, 'f', -1, 64)
}

// vocabTable: the term/kind rows of every struct as the Go code declares them (for the
// consistency obligation against Vocab.tla)
func vocabTable() J {
	out := J{}
	for name, t := range goTypes {
		rows := []J{}
		for i := 0; i < t.NumField(); i++ {
			f := t.Field(i)
			rows = append(rows, J{"t": termOf(f), "k": kindOfField(f.Type), "f": f.Name})
		}
		out[name] = rows
	}
	return out
}
