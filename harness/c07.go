package main

// C07: type-name dispatch through every channel x hook setting.  Events for DispatchTrace.tla.

import (
	"encoding/json"
	"fmt"
	"reflect"

	ap "github.com/go-ap/activitypub"
	"github.com/valyala/fastjson"
)

type customType struct {
	ap.Object
	Extra string
}

const c07ID = "https://example.com/dispatch/1"
const c07Own = "https://example.com/dispatch/own"

// one property of its own per struct, so that "carries the properties that were written" covers more than the object core
var c07OwnField = map[string][2]string{ // Go type -> {Go field, JSON term}; the value is an IRI (a list of one for list fields)
	"Object": {"Context", "context"}, "Actor": {"Outbox", "outbox"}, "Activity": {"Object", "object"}, "IntransitiveActivity": {"Target", "target"},
	"Question": {"OneOf", "oneOf"}, "Collection": {"Items", "items"}, "CollectionPage": {"Next", "next"}, "OrderedCollection": {"OrderedItems", "orderedItems"},
	"OrderedCollectionPage": {"Prev", "prev"}, "Place": {"Location", "location"}, "Profile": {"Describes", "describes"},
	"Relationship": {"Subject", "subject"}, "Tombstone": {"Generator", "generator"}, "Link": {"Preview", "preview"},
}

func c07OwnOK(v reflect.Value) bool {
	f, ok := c07OwnField[v.Type().Name()]
	if !ok {
		return true
	}
	fv := v.FieldByName(f[0])
	if fv.Kind() == reflect.Slice {
		return fv.Len() == 1 && fmt.Sprint(fv.Index(0).Interface()) == c07Own
	}
	return !fv.IsNil() && fmt.Sprint(fv.Interface()) == c07Own
}

func c07InstallHooks() func() {
	oldT, oldU, oldE := ap.ItemTyperFunc, ap.JSONItemUnmarshal, ap.IsNotEmpty
	ap.ItemTyperFunc = func(t ap.ActivityVocabularyType) (ap.Item, error) {
		if t == "Custom" {
			return &ap.Object{Type: t}, nil
		}
		return ap.GetItemByType(t)
	}
	ap.JSONItemUnmarshal = func(t ap.ActivityVocabularyType, v *fastjson.Value, it ap.Item) error {
		if t != "Custom" {
			// a typical extension knows its own types only; it must never be consulted for vocabulary names
			return fmt.Errorf("extension hook called for %q", t)
		}
		return ap.OnObject(it, func(o *ap.Object) error { return ap.JSONLoadObject(v, o) })
	}
	ap.IsNotEmpty = func(it ap.Item) bool {
		if it != nil && it.GetType() == "Custom" {
			return true
		}
		return ap.NotEmpty(it)
	}
	return func() { ap.ItemTyperFunc, ap.JSONItemUnmarshal, ap.IsNotEmpty = oldT, oldU, oldE }
}

// c07Value builds, without the registry, the value a name denotes for the gob channels
func c07Value(name string, gt string) ap.Item {
	t, ok := goTypes[gt]
	if !ok {
		t = goTypes["Object"]
	}
	v := reflect.New(t)
	v.Elem().FieldByName("ID").SetString(c07ID)
	v.Elem().FieldByName("Type").SetString(name)
	v.Elem().FieldByName("Name").Set(reflect.ValueOf(ap.NaturalLanguageValues{{Ref: ap.NilLangRef, Value: ap.Content("dispatch")}}))
	if f, ok := c07OwnField[t.Name()]; ok {
		fv := v.Elem().FieldByName(f[0])
		if fv.Kind() == reflect.Slice {
			fv.Set(reflect.ValueOf(ap.ItemCollection{ap.IRI(c07Own)}))
		} else {
			fv.Set(reflect.ValueOf(ap.IRI(c07Own)))
		}
	}
	return v.Interface().(ap.Item)
}

func c07Doc(name string, gt string) J {
	d := J{"id": c07ID, "name": "dispatch"}
	if f, ok := c07OwnField[gt]; ok {
		d[f[1]] = c07Own
	}
	if name != "" {
		d["type"] = name
	}
	return d
}

func c07Describe(it ap.Item, carried bool) J {
	if it == nil {
		return J{"kind": "nothing"}
	}
	v := reflect.ValueOf(it)
	if v.Kind() == reflect.Ptr && v.IsNil() {
		return J{"kind": "nothing"}
	}
	for v.Kind() == reflect.Ptr {
		v = v.Elem()
	}
	if v.Kind() == reflect.Slice && v.Len() == 0 {
		return J{"kind": "nothing"} // an empty list carries no value
	}
	if v.Kind() != reflect.Struct {
		return J{"kind": "other:" + v.Type().String()}
	}
	g := v.Type().Name()
	if _, ok := goTypes[g]; !ok {
		return J{"kind": "other:" + g}
	}
	// the registry's documented fallback for unknown names: an untyped, empty Object = nothing
	if g == "Object" && v.IsZero() {
		return J{"kind": "nothing"}
	}
	id := v.FieldByName("ID").String()
	name := ""
	if n := v.FieldByName("Name"); n.Len() > 0 {
		name = string(n.Index(0).Field(1).Bytes())
	}
	typ := ap.ActivityVocabularyType(v.FieldByName("Type").String())
	lists := []string{}
	for ln, l := range map[string]ap.ActivityVocabularyTypes{"ObjectTypes": ap.ObjectTypes, "ActorTypes": ap.ActorTypes,
		"ActivityTypes": ap.ActivityTypes, "IntransitiveActivityTypes": ap.IntransitiveActivityTypes, "LinkTypes": ap.LinkTypes,
		"CollectionTypes": ap.CollectionTypes} {
		if l.Contains(typ) {
			lists = append(lists, ln)
		}
	}
	helpers := []string{}
	try := func(name string, f func() (bool, error)) {
		ok := false
		var err error
		if p := guard(func() { ok, err = f() }); p == "" && err == nil && ok {
			helpers = append(helpers, name)
		}
	}
	try("OnObject", func() (bool, error) {
		c := false
		e := ap.OnObject(it, func(o *ap.Object) error { c = o != nil && string(o.ID) == id; return nil })
		return c, e
	})
	try("OnActor", func() (bool, error) {
		c := false
		e := ap.OnActor(it, func(o *ap.Actor) error { c = o != nil && string(o.ID) == id; return nil })
		return c, e
	})
	try("OnActivity", func() (bool, error) {
		c := false
		e := ap.OnActivity(it, func(o *ap.Activity) error { c = o != nil && string(o.ID) == id; return nil })
		return c, e
	})
	try("OnIntransitiveActivity", func() (bool, error) {
		c := false
		e := ap.OnIntransitiveActivity(it, func(o *ap.IntransitiveActivity) error { c = o != nil && string(o.ID) == id; return nil })
		return c, e
	})
	try("OnLink", func() (bool, error) {
		c := false
		e := ap.OnLink(it, func(o *ap.Link) error { c = o != nil && string(o.ID) == id; return nil })
		return c, e
	})
	try("OnCollectionIntf", func() (bool, error) {
		c := false
		e := ap.OnCollectionIntf(it, func(o ap.CollectionInterface) error { c = o != nil; return nil })
		return c, e
	})
	var isObj, isLink, isColl bool
	guard(func() { isObj, isLink, isColl = ap.IsObject(it), ap.IsLink(it), it.IsCollection() })
	return J{"kind": "value", "g": g, "idok": id == c07ID, "propok": name == "dispatch" && (!carried || c07OwnOK(v)), "isObject": isObj, "isLink": isLink,
		"isCollection": isColl, "lists": lists, "helpers": helpers, "type": string(typ)}
}

func c07Run(ch, name, gt string) (res J) {
	var it ap.Item
	var err error
	p := guard(func() {
		switch ch {
		case "registry":
			it, err = ap.ItemTyperFunc(ap.ActivityVocabularyType(name))
			if err == nil && it != nil {
				// the registry does not carry id and properties: give the value an id so that helpers can be probed
				v := reflect.ValueOf(it)
				if v.Kind() == reflect.Ptr && !v.IsNil() && v.Elem().Kind() == reflect.Struct && (name == "" || !(v.Elem().Type().Name() == "Object" && v.Elem().IsZero())) {
					v.Elem().FieldByName("ID").SetString(c07ID)
				}
			}
		case "json-top":
			b, _ := json.Marshal(c07Doc(name, gt))
			it, err = ap.UnmarshalJSON(b)
		case "json-item":
			b, _ := json.Marshal(J{"id": "https://example.com/outer", "type": "Create", "object": c07Doc(name, gt)})
			var outer ap.Item
			outer, err = ap.UnmarshalJSON(b)
			if err == nil && outer != nil {
				it = outer.(*ap.Activity).Object
			}
		case "json-list":
			b, _ := json.Marshal(J{"id": "https://example.com/outer", "type": "Note", "tag": []interface{}{"https://example.com/first", c07Doc(name, gt)}})
			var outer ap.Item
			outer, err = ap.UnmarshalJSON(b)
			if err == nil && outer != nil {
				if tags := outer.(*ap.Object).Tag; len(tags) == 2 {
					it = tags[1]
				}
			}
		case "gob-top":
			var b []byte
			b, err = ap.GobEncode(c07Value(name, gt))
			if err == nil {
				it, err = ap.GobDecode(b)
			}
		case "gob-item":
			var b []byte
			b, err = ap.GobEncode(&ap.Activity{ID: "https://example.com/outer", Type: ap.CreateType, Object: c07Value(name, gt)})
			if err == nil {
				var outer ap.Item
				outer, err = ap.GobDecode(b)
				if err == nil && outer != nil {
					it = outer.(*ap.Activity).Object
				}
			}
		case "gob-list":
			var b []byte
			b, err = ap.GobEncode(&ap.Object{ID: "https://example.com/outer", Type: ap.NoteType, Tag: ap.ItemCollection{ap.IRI("https://example.com/first"), c07Value(name, gt)}})
			if err == nil {
				var outer ap.Item
				outer, err = ap.GobDecode(b)
				if err == nil && outer != nil {
					if tags := outer.(*ap.Object).Tag; len(tags) == 2 {
						it = tags[1]
					}
				}
			}
		}
	})
	if p != "" {
		return J{"kind": "panic", "msg": p}
	}
	if err != nil {
		return J{"kind": "error", "msg": err.Error()}
	}
	return c07Describe(it, ch != "registry")
}

func init() {
	// vh c07-replay cases.ndjson trace.ndjson
	register("c07-replay", func(args []string) error {
		w, err := newNDWriter(args[1])
		if err != nil {
			return err
		}
		err = readNDJSON(args[0], func(raw []byte) error {
			var c struct {
				Ch, N, Hooks string
				Expect       J
			}
			if err := json.Unmarshal(raw, &c); err != nil {
				return err
			}
			gt, _ := c.Expect["g"].(string)
			var restore func()
			if c.Hooks == "set" {
				restore = c07InstallHooks()
			}
			res := c07Run(c.Ch, c.N, gt)
			if restore != nil {
				restore()
			}
			w.Write(J{"ev": "req", "ch": c.Ch, "n": c.N, "hooks": c.Hooks, "res": res})
			return nil
		})
		if err != nil {
			return err
		}
		return w.Close()
	})
	_ = fmt.Sprint
}
