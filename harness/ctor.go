package main

// Constructors.tla (growth beyond the listed properties): every *New constructor with every type name.

import (
	"encoding/json"
	"reflect"

	ap "github.com/go-ap/activitypub"
)

var ctorOb = ap.IRI("https://example.com/ctor/object")
var ctorTarget = ap.IRI("https://example.com/ctor/target")

const ctorID = ap.ID("https://example.com/ctor/1")

var ctors = map[string]func(id ap.ID, typ string) ap.Item{
	"ActivityNew": func(id ap.ID, typ string) ap.Item { return ap.ActivityNew(id, ap.ActivityVocabularyType(typ), ctorOb) },
	"ActorNew":    func(id ap.ID, typ string) ap.Item { return ap.ActorNew(id, ap.ActivityVocabularyType(typ)) },
	"IntransitiveActivityNew": func(id ap.ID, typ string) ap.Item {
		return ap.IntransitiveActivityNew(id, ap.ActivityVocabularyType(typ))
	},
	"ObjectNew": func(id ap.ID, typ string) ap.Item {
		o := ap.ObjectNew(ap.ActivityVocabularyType(typ))
		o.ID = id
		return o
	},
	"LinkNew":              func(id ap.ID, typ string) ap.Item { return ap.LinkNew(id, ap.ActivityVocabularyType(typ)) },
	"AcceptNew":            func(id ap.ID, typ string) ap.Item { return ap.AcceptNew(id, ctorOb) },
	"AddNew":               func(id ap.ID, typ string) ap.Item { return ap.AddNew(id, ctorOb, ctorTarget) },
	"AnnounceNew":          func(id ap.ID, typ string) ap.Item { return ap.AnnounceNew(id, ctorOb) },
	"BlockNew":             func(id ap.ID, typ string) ap.Item { return ap.BlockNew(id, ctorOb) },
	"CreateNew":            func(id ap.ID, typ string) ap.Item { return ap.CreateNew(id, ctorOb) },
	"DeleteNew":            func(id ap.ID, typ string) ap.Item { return ap.DeleteNew(id, ctorOb) },
	"DislikeNew":           func(id ap.ID, typ string) ap.Item { return ap.DislikeNew(id, ctorOb) },
	"FlagNew":              func(id ap.ID, typ string) ap.Item { return ap.FlagNew(id, ctorOb) },
	"FollowNew":            func(id ap.ID, typ string) ap.Item { return ap.FollowNew(id, ctorOb) },
	"IgnoreNew":            func(id ap.ID, typ string) ap.Item { return ap.IgnoreNew(id, ctorOb) },
	"InviteNew":            func(id ap.ID, typ string) ap.Item { return ap.InviteNew(id, ctorOb) },
	"JoinNew":              func(id ap.ID, typ string) ap.Item { return ap.JoinNew(id, ctorOb) },
	"LeaveNew":             func(id ap.ID, typ string) ap.Item { return ap.LeaveNew(id, ctorOb) },
	"LikeNew":              func(id ap.ID, typ string) ap.Item { return ap.LikeNew(id, ctorOb) },
	"ListenNew":            func(id ap.ID, typ string) ap.Item { return ap.ListenNew(id, ctorOb) },
	"MoveNew":              func(id ap.ID, typ string) ap.Item { return ap.MoveNew(id, ctorOb) },
	"OfferNew":             func(id ap.ID, typ string) ap.Item { return ap.OfferNew(id, ctorOb) },
	"RejectNew":            func(id ap.ID, typ string) ap.Item { return ap.RejectNew(id, ctorOb) },
	"ReadNew":              func(id ap.ID, typ string) ap.Item { return ap.ReadNew(id, ctorOb) },
	"RemoveNew":            func(id ap.ID, typ string) ap.Item { return ap.RemoveNew(id, ctorOb, ctorTarget) },
	"TentativeRejectNew":   func(id ap.ID, typ string) ap.Item { return ap.TentativeRejectNew(id, ctorOb) },
	"TentativeAcceptNew":   func(id ap.ID, typ string) ap.Item { return ap.TentativeAcceptNew(id, ctorOb) },
	"UndoNew":              func(id ap.ID, typ string) ap.Item { return ap.UndoNew(id, ctorOb) },
	"UpdateNew":            func(id ap.ID, typ string) ap.Item { return ap.UpdateNew(id, ctorOb) },
	"ViewNew":              func(id ap.ID, typ string) ap.Item { return ap.ViewNew(id, ctorOb) },
	"ApplicationNew":       func(id ap.ID, typ string) ap.Item { return ap.ApplicationNew(id) },
	"GroupNew":             func(id ap.ID, typ string) ap.Item { return ap.GroupNew(id) },
	"OrganizationNew":      func(id ap.ID, typ string) ap.Item { return ap.OrganizationNew(id) },
	"PersonNew":            func(id ap.ID, typ string) ap.Item { return ap.PersonNew(id) },
	"ServiceNew":           func(id ap.ID, typ string) ap.Item { return ap.ServiceNew(id) },
	"ArriveNew":            func(id ap.ID, typ string) ap.Item { return ap.ArriveNew(id) },
	"TravelNew":            func(id ap.ID, typ string) ap.Item { return ap.TravelNew(id) },
	"QuestionNew":          func(id ap.ID, typ string) ap.Item { return ap.QuestionNew(id) },
	"CollectionNew":        func(id ap.ID, typ string) ap.Item { return ap.CollectionNew(id) },
	"OrderedCollectionNew": func(id ap.ID, typ string) ap.Item { return ap.OrderedCollectionNew(id) },
	"MentionNew":           func(id ap.ID, typ string) ap.Item { return ap.MentionNew(id) },
}

func init() {
	register("ctor-run", func(args []string) error {
		w, err := newNDWriter(args[1])
		if err != nil {
			return err
		}
		err = readNDJSON(args[0], func(raw []byte) error {
			var c struct{ C, Typ string }
			if err := json.Unmarshal(raw, &c); err != nil {
				return err
			}
			f, ok := ctors[c.C]
			if !ok {
				w.Write(J{"ev": "new", "c": c.C, "typ": c.Typ, "known": false, "res": J{"g": "", "type": "", "idok": false, "extra": []string{}}})
				return nil
			}
			var it ap.Item
			guard(func() { it = f(ctorID, c.Typ) })
			res := J{"g": "", "type": "", "idok": false, "extra": []string{}}
			if it != nil {
				v := reflect.ValueOf(it)
				for v.Kind() == reflect.Ptr {
					v = v.Elem()
				}
				p := projectItem(it)
				res["g"] = v.Type().Name()
				// typed aliases (Accept = Activity ...) keep the struct's name through reflection of the alias target
				if g, ok := p["g"].(string); ok {
					res["g"] = g
				}
				props, _ := p["p"].(J)
				extra := []string{}
				for t := range props {
					switch t {
					case "id", "type", "object", "target":
					default:
						extra = append(extra, t)
					}
				}
				res["extra"] = extra
				if tv, ok := props["type"].(J); ok {
					res["type"] = tv["s"]
				}
				if iv, ok := props["id"].(J); ok {
					res["idok"] = iv["s"] == string(ctorID)
				}
			}
			w.Write(J{"ev": "new", "c": c.C, "typ": c.Typ, "known": true, "res": res})
			return nil
		})
		if err != nil {
			return err
		}
		return w.Close()
	})
}
