package main

// C06 (text survives both codecs) and C02 (emitted JSON is valid, unambiguous, injection-free).
// Strings come from TextGen.tla as hex; the harness reports hex of what came back.  To keep the
// trace small every disagreement and a 1/N sample of agreements is written; TextTrace.tla re-judges them.

import (
	"bytes"
	"encoding/hex"
	"encoding/json"
	"fmt"
	"reflect"
	"sort"
	"strings"
	"unicode/utf8"

	ap "github.com/go-ap/activitypub"
)

type textStr struct {
	Syms []string `json:"syms"`
	Hex  string   `json:"hex"`
	Rep  int      `json:"rep"` // the byte string is repeated Rep times (texts beyond 64 KiB)
	b    []byte
}

func loadStrings(path string) ([]*textStr, error) {
	var out []*textStr
	err := readNDJSON(path, func(raw []byte) error {
		t := &textStr{}
		if err := json.Unmarshal(raw, t); err != nil {
			return err
		}
		b, err := hex.DecodeString(t.Hex)
		if err != nil {
			return err
		}
		t.b = b
		if t.Rep > 1 {
			t.b = bytes.Repeat(b, t.Rep)
			t.Hex = hex.EncodeToString(t.b)
		}
		out = append(out, t)
		return nil
	})
	return out, err
}

// ---------------------------------------------------------------- C06

var c06Props = []string{"name", "summary", "content", "preferredUsername", "source.content"}
var c06Forms = []string{"single", "tagged1", "map2", "map2-last", "map3", "map2-case", "neighbours"}

// c06Neighbour: what the OTHER text properties of the value hold in the "neighbours" form
func c06Neighbour(prop string) ap.NaturalLanguageValues {
	return ap.NaturalLanguageValues{{Ref: "en", Value: ap.Content("voisin de " + prop)}, {Ref: "fr", Value: ap.Content("autre " + prop + " \"q\"")}}
}

func c06SameEntries(a, b ap.NaturalLanguageValues) bool {
	if len(a) != len(b) {
		return false
	}
	for _, x := range a {
		found := false
		for _, y := range b {
			if x.Ref == y.Ref && bytes.Equal(x.Value, y.Value) {
				found = true
			}
		}
		if !found {
			return false
		}
	}
	return true
}

func c06Value(prop, form string, text []byte) (ap.Item, []string) {
	var n ap.NaturalLanguageValues
	var tags []string
	switch form {
	case "single":
		n = ap.NaturalLanguageValues{{Ref: ap.NilLangRef, Value: ap.Content(text)}}
	case "tagged1":
		n = ap.NaturalLanguageValues{{Ref: "en", Value: ap.Content(text)}}
	case "map2":
		n = ap.NaturalLanguageValues{{Ref: "en", Value: ap.Content(text)}, {Ref: "fr", Value: ap.Content("fixe")}}
		tags = []string{"en", "fr"}
	case "map2-last": // the text is the LAST entry
		n = ap.NaturalLanguageValues{{Ref: "fr", Value: ap.Content("fixe")}, {Ref: "en", Value: ap.Content(text)}}
		tags = []string{"en", "fr"}
	case "map2-case": // tags are case-sensitive strings: they must come back as they were
		n = ap.NaturalLanguageValues{{Ref: "en-US", Value: ap.Content(text)}, {Ref: "zh-Hant", Value: ap.Content("fixe")}}
		tags = []string{"en-US", "zh-Hant"}
	case "map3":
		n = ap.NaturalLanguageValues{{Ref: "de", Value: ap.Content("fest")}, {Ref: "en", Value: ap.Content(text)}, {Ref: "fr", Value: ap.Content("fixe")}}
		tags = []string{"de", "en", "fr"}
	}
	if form == "neighbours" { // every text property of one value is set at once; the text under test sits in prop
		a := &ap.Actor{ID: "https://example.com/a", Type: ap.PersonType}
		val := func(p string) ap.NaturalLanguageValues {
			if p == prop {
				return ap.NaturalLanguageValues{{Ref: ap.NilLangRef, Value: ap.Content(text)}}
			}
			return c06Neighbour(p)
		}
		a.Name, a.Summary, a.Content, a.PreferredUsername = val("name"), val("summary"), val("content"), val("preferredUsername")
		a.Source = ap.Source{Content: val("source.content"), MediaType: "text/plain"}
		return a, nil
	}
	if prop == "preferredUsername" {
		return &ap.Actor{ID: "https://example.com/a", Type: ap.PersonType, PreferredUsername: n}, tags
	}
	o := &ap.Object{ID: "https://example.com/o", Type: ap.NoteType}
	switch prop {
	case "name":
		o.Name = n
	case "summary":
		o.Summary = n
	case "content":
		o.Content = n
	case "source.content":
		o.Source = ap.Source{Content: n, MediaType: "text/plain"}
	}
	return o, tags
}

func c06Read(prop string, it ap.Item) ap.NaturalLanguageValues {
	if it == nil {
		return nil
	}
	v := reflect.ValueOf(it)
	for v.Kind() == reflect.Ptr {
		if v.IsNil() {
			return nil
		}
		v = v.Elem()
	}
	if v.Kind() != reflect.Struct {
		return nil
	}
	var f reflect.Value
	switch prop {
	case "name":
		f = v.FieldByName("Name")
	case "summary":
		f = v.FieldByName("Summary")
	case "content":
		f = v.FieldByName("Content")
	case "preferredUsername":
		f = v.FieldByName("PreferredUsername")
	case "source.content":
		if s := v.FieldByName("Source"); s.IsValid() {
			f = s.FieldByName("Content")
		}
	}
	if !f.IsValid() {
		return nil
	}
	return f.Interface().(ap.NaturalLanguageValues)
}

func c06One(codec, prop, form string, t *textStr) J {
	ev := J{"ev": "text", "codec": codec, "prop": prop, "form": form, "syms": t.Syms, "in": t.Hex, "out": "", "tagsok": true, "err": ""}
	it, tags := c06Value(prop, form, t.b)
	var out ap.Item
	err := safely(func() error {
		var data []byte
		var e error
		if codec == "json" {
			if data, e = ap.MarshalJSON(it); e != nil {
				return fmt.Errorf("encode: %w", e)
			}
			out, e = ap.UnmarshalJSON(data)
		} else {
			if data, e = ap.GobEncode(it); e != nil {
				return fmt.Errorf("encode: %w", e)
			}
			out, e = ap.GobDecode(data)
		}
		if e != nil {
			return fmt.Errorf("decode: %w", e)
		}
		return nil
	})
	if err != nil {
		ev["err"] = err.Error()
		return ev
	}
	n := c06Read(prop, out)
	switch form {
	case "neighbours":
		if len(n) >= 1 {
			ev["out"] = hex.EncodeToString(n[0].Value)
		}
		for _, p := range c06Props {
			if p != prop && !c06SameEntries(c06Read(p, out), c06Neighbour(p)) {
				ev["tagsok"] = false
			}
		}
	case "single", "tagged1":
		if len(n) >= 1 {
			ev["out"] = hex.EncodeToString(n[0].Value)
		}
		if len(n) > 1 {
			ev["tagsok"] = false
		}
	default:
		got := []string{}
		for _, e := range n {
			got = append(got, string(e.Ref))
			if e.Ref == "en" || e.Ref == "en-US" {
				ev["out"] = hex.EncodeToString(e.Value)
			}
		}
		sort.Strings(got)
		ev["tagsok"] = strings.Join(got, ",") == strings.Join(tags, ",")
	}
	return ev
}

// ---------------------------------------------------------------- C02

type emitPos struct {
	name  string
	build func(s string) ap.Item
	path  []interface{} // where the string must be found in the parsed document
}

var nlvOf = func(s string) ap.NaturalLanguageValues {
	return ap.NaturalLanguageValues{{Ref: ap.NilLangRef, Value: ap.Content(s)}}
}

const eid = "https://example.com/e/1"

var emitPositions = []emitPos{
	{"Object.id", func(s string) ap.Item { return &ap.Object{ID: ap.IRI(s), Type: ap.NoteType} }, []interface{}{"id"}},
	{"Object.type", func(s string) ap.Item { return &ap.Object{ID: eid, Type: ap.ActivityVocabularyType(s)} }, []interface{}{"type"}},
	{"Object.mediaType", func(s string) ap.Item { return &ap.Object{ID: eid, Type: ap.NoteType, MediaType: ap.MimeType(s)} }, []interface{}{"mediaType"}},
	{"Object.name", func(s string) ap.Item { return &ap.Object{ID: eid, Type: ap.NoteType, Name: nlvOf(s)} }, []interface{}{"name"}},
	{"Object.content", func(s string) ap.Item { return &ap.Object{ID: eid, Type: ap.NoteType, Content: nlvOf(s)} }, []interface{}{"content"}},
	{"Object.contentMap.en", func(s string) ap.Item {
		return &ap.Object{ID: eid, Type: ap.NoteType, Content: ap.NaturalLanguageValues{{Ref: "en", Value: ap.Content(s)}, {Ref: "fr", Value: ap.Content("fixe")}}}
	}, []interface{}{"contentMap", "en"}},
	{"Object.contentMap.key", func(s string) ap.Item {
		return &ap.Object{ID: eid, Type: ap.NoteType, Content: ap.NaturalLanguageValues{{Ref: ap.LangRef(s), Value: ap.Content("txt")}, {Ref: "fr", Value: ap.Content("fixe")}}}
	}, []interface{}{"contentMap", "#key:txt"}},
	// two DIFFERENT tags that differ only in an invalid UTF-8 byte: JSON cannot tell them apart, the map must not repeat a name
	{"Object.contentMap.twokeys", func(s string) ap.Item {
		return &ap.Object{ID: eid, Type: ap.NoteType, Content: ap.NaturalLanguageValues{{Ref: ap.LangRef(s), Value: ap.Content("txt")},
			{Ref: "z\xfe", Value: ap.Content("one")}, {Ref: "z\xff", Value: ap.Content("other")}}}
	}, []interface{}{"contentMap", "#key:txt"}},
	{"Object.url", func(s string) ap.Item { return &ap.Object{ID: eid, Type: ap.NoteType, URL: ap.IRI(s)} }, []interface{}{"url"}},
	{"Object.attributedTo", func(s string) ap.Item { return &ap.Object{ID: eid, Type: ap.NoteType, AttributedTo: ap.IRI(s)} }, []interface{}{"attributedTo"}},
	{"Object.to[1]", func(s string) ap.Item {
		return &ap.Object{ID: eid, Type: ap.NoteType, To: ap.ItemCollection{ap.IRI("https://example.com/first"), ap.IRI(s)}}
	}, []interface{}{"to", 1}},
	{"Object.tag[0].name", func(s string) ap.Item {
		return &ap.Object{ID: eid, Type: ap.NoteType, Tag: ap.ItemCollection{&ap.Object{Name: nlvOf(s)}, ap.IRI("https://example.com/second")}}
	}, []interface{}{"tag", 0, "name"}},
	{"Object.source.content", func(s string) ap.Item {
		return &ap.Object{ID: eid, Type: ap.NoteType, Source: ap.Source{Content: nlvOf(s), MediaType: "text/plain"}}
	}, []interface{}{"source", "content"}},
	{"Object.source.mediaType", func(s string) ap.Item {
		return &ap.Object{ID: eid, Type: ap.NoteType, Source: ap.Source{Content: nlvOf("src"), MediaType: ap.MimeType(s)}}
	}, []interface{}{"source", "mediaType"}},
	{"Activity.object.id", func(s string) ap.Item {
		return &ap.Activity{ID: eid, Type: ap.CreateType, Object: &ap.Object{ID: ap.IRI(s), Type: ap.NoteType}}
	}, []interface{}{"object", "id"}},
	{"Activity.actor", func(s string) ap.Item { return &ap.Activity{ID: eid, Type: ap.CreateType, Actor: ap.IRI(s)} }, []interface{}{"actor"}},
	{"Actor.preferredUsername", func(s string) ap.Item { return &ap.Actor{ID: eid, Type: ap.PersonType, PreferredUsername: nlvOf(s)} }, []interface{}{"preferredUsername"}},
	{"Actor.inbox", func(s string) ap.Item { return &ap.Actor{ID: eid, Type: ap.PersonType, Inbox: ap.IRI(s)} }, []interface{}{"inbox"}},
	{"Actor.publicKey.id", func(s string) ap.Item {
		return &ap.Actor{ID: eid, Type: ap.PersonType, PublicKey: ap.PublicKey{ID: ap.IRI(s), Owner: eid, PublicKeyPem: "PEM"}}
	}, []interface{}{"publicKey", "id"}},
	{"Actor.publicKey.owner", func(s string) ap.Item {
		return &ap.Actor{ID: eid, Type: ap.PersonType, PublicKey: ap.PublicKey{ID: eid + "#k", Owner: ap.IRI(s), PublicKeyPem: "PEM"}}
	}, []interface{}{"publicKey", "owner"}},
	{"Actor.publicKey.publicKeyPem", func(s string) ap.Item {
		return &ap.Actor{ID: eid, Type: ap.PersonType, PublicKey: ap.PublicKey{ID: eid + "#k", Owner: eid, PublicKeyPem: s}}
	}, []interface{}{"publicKey", "publicKeyPem"}},
	{"Actor.endpoints.sharedInbox", func(s string) ap.Item {
		return &ap.Actor{ID: eid, Type: ap.PersonType, Endpoints: &ap.Endpoints{SharedInbox: ap.IRI(s)}}
	}, []interface{}{"endpoints", "sharedInbox"}},
	{"Link.href", func(s string) ap.Item { return &ap.Link{ID: eid, Type: ap.LinkType, Href: ap.IRI(s)} }, []interface{}{"href"}},
	{"Link.rel", func(s string) ap.Item { return &ap.Link{ID: eid, Type: ap.LinkType, Href: eid, Rel: ap.IRI(s)} }, []interface{}{"rel"}},
	{"Link.hreflang", func(s string) ap.Item {
		return &ap.Link{ID: eid, Type: ap.LinkType, Href: eid, HrefLang: ap.LangRef(s)}
	}, []interface{}{"hreflang"}},
	{"Link.name", func(s string) ap.Item { return &ap.Link{ID: eid, Type: ap.MentionType, Href: eid, Name: nlvOf(s)} }, []interface{}{"name"}},
	{"Place.units", func(s string) ap.Item { return &ap.Place{ID: eid, Type: ap.PlaceType, Units: s} }, []interface{}{"units"}},
	{"Tombstone.formerType", func(s string) ap.Item {
		return &ap.Tombstone{ID: eid, Type: ap.TombstoneType, FormerType: ap.ActivityVocabularyType(s)}
	}, []interface{}{"formerType"}},
	{"Collection.items[0]", func(s string) ap.Item {
		return &ap.OrderedCollection{ID: eid, Type: ap.OrderedCollectionType, OrderedItems: ap.ItemCollection{ap.IRI(s), ap.IRI("https://example.com/second")}}
	}, []interface{}{"orderedItems", 0}},
	// list members that encode to nothing in front of a real one (nil, typed nil, empty IRI, empty object)
	{"Object.to[after-nil]", func(s string) ap.Item {
		return &ap.Object{ID: eid, Type: ap.NoteType, To: ap.ItemCollection{nil, ap.IRI(s), ap.IRI("https://example.com/last")}}
	}, []interface{}{"to", 0}},
	{"Object.cc[after-empties]", func(s string) ap.Item {
		return &ap.Object{ID: eid, Type: ap.NoteType, CC: ap.ItemCollection{ap.IRI(""), &ap.Object{}, (*ap.Actor)(nil), ap.IRI(s)}}
	}, []interface{}{"cc", 0}},
	{"Collection.items[between-empties]", func(s string) ap.Item {
		return &ap.OrderedCollection{ID: eid, Type: ap.OrderedCollectionType, OrderedItems: ap.ItemCollection{ap.IRI("https://example.com/first"), &ap.Object{}, ap.IRI(s), nil}}
	}, []interface{}{"orderedItems", 1}},
	{"ItemCollection[after-nil]", func(s string) ap.Item {
		return ap.ItemCollection{nil, ap.IRI(""), ap.IRI(s), ap.IRI("https://example.com/last")}
	}, []interface{}{0}},
	{"IRI", func(s string) ap.Item { return ap.IRI(s) }, []interface{}{}},
	{"IRIs[1]", func(s string) ap.Item { return ap.IRIs{"https://example.com/first", ap.IRI(s)} }, []interface{}{1}},
	{"ItemCollection[1]", func(s string) ap.Item { return ap.ItemCollection{ap.IRI("https://example.com/first"), ap.IRI(s)} }, []interface{}{1}},
}

// parseNoDup decodes JSON with encoding/json detecting repeated member names
func parseNoDup(data []byte) (v interface{}, dup bool, err error) {
	dec := json.NewDecoder(bytes.NewReader(data))
	v, dup, err = parseValue(dec)
	if err != nil {
		return nil, false, err
	}
	if _, e := dec.Token(); e == nil {
		return nil, false, fmt.Errorf("trailing data")
	}
	return v, dup, nil
}

type member struct {
	k string
	v interface{}
}
type ordObj []member

func parseValue(dec *json.Decoder) (interface{}, bool, error) {
	tok, err := dec.Token()
	if err != nil {
		return nil, false, err
	}
	dup := false
	if d, ok := tok.(json.Delim); ok {
		switch d {
		case '{':
			obj := ordObj{}
			seen := map[string]bool{}
			for dec.More() {
				kt, err := dec.Token()
				if err != nil {
					return nil, false, err
				}
				k := kt.(string)
				if seen[k] {
					dup = true
				}
				seen[k] = true
				v, d2, err := parseValue(dec)
				if err != nil {
					return nil, false, err
				}
				dup = dup || d2
				obj = append(obj, member{k, v})
			}
			if _, err := dec.Token(); err != nil {
				return nil, false, err
			}
			return obj, dup, nil
		case '[':
			arr := []interface{}{}
			for dec.More() {
				v, d2, err := parseValue(dec)
				if err != nil {
					return nil, false, err
				}
				dup = dup || d2
				arr = append(arr, v)
			}
			if _, err := dec.Token(); err != nil {
				return nil, false, err
			}
			return arr, dup, nil
		}
	}
	return tok, false, nil
}

// shape: the multiset of member paths (names only), used to detect added / overridden members
func docShape(v interface{}, prefix string, out *[]string) {
	switch x := v.(type) {
	case ordObj:
		for _, m := range x {
			*out = append(*out, prefix+"/"+m.k)
			docShape(m.v, prefix+"/"+m.k, out)
		}
	case []interface{}:
		*out = append(*out, fmt.Sprintf("%s[%d]", prefix, len(x)))
		for i, e := range x {
			docShape(e, fmt.Sprintf("%s/%d", prefix, i), out)
		}
	}
}

func lookup(v interface{}, path []interface{}) (string, bool) {
	cur := v
	for _, seg := range path {
		switch s := seg.(type) {
		case string:
			o, ok := cur.(ordObj)
			if !ok {
				return "", false
			}
			if strings.HasPrefix(s, "#key:") { // the string is a member NAME: find the member whose value is the given text
				for _, m := range o {
					if mv, ok := m.v.(string); ok && mv == s[5:] {
						return m.k, true
					}
				}
				return "", false
			}
			found := false
			for _, m := range o {
				if m.k == s {
					cur, found = m.v, true
					break
				}
			}
			if !found {
				return "", false
			}
		case int:
			a, ok := cur.([]interface{})
			if !ok || s >= len(a) {
				return "", false
			}
			cur = a[s]
		}
	}
	str, ok := cur.(string)
	return str, ok
}

func emitOne(pos emitPos, via string, t *textStr, baseShape string) J {
	ev := J{"ev": "emit", "pos": pos.name, "via": via, "syms": t.Syms, "in": t.Hex, "valid": false, "dup": false, "dec": "", "extra": false, "err": ""}
	it := pos.build(string(t.b))
	var data []byte
	err := safely(func() error {
		var e error
		if via == "pkg" {
			data, e = ap.MarshalJSON(it)
		} else {
			data, e = it.(json.Marshaler).MarshalJSON()
		}
		return e
	})
	if err != nil {
		ev["err"] = err.Error()
		return ev
	}
	ev["raw"] = string(data)
	doc, dup, perr := parseNoDup(data)
	if perr != nil || !utf8.Valid(data) {
		return ev // valid stays false
	}
	ev["valid"], ev["dup"] = true, dup
	var shape []string
	docShape(doc, "", &shape)
	sort.Strings(shape)
	if pos.path != nil && len(pos.path) > 0 {
		if k, ok := pos.path[len(pos.path)-1].(string); ok && strings.HasPrefix(k, "#key:") {
			// the member name itself varies: compare shapes with names of that object blanked
			baseShape, shape = "", nil
		}
	}
	if baseShape != "" && strings.Join(shape, "\n") != baseShape {
		ev["extra"] = true
	}
	if s, ok := lookup(doc, pos.path); ok {
		ev["dec"] = hex.EncodeToString([]byte(s))
		if !utf8.Valid(t.b) {
			// JSON can not carry the raw bytes: equality up to U+FFFD (runs collapsed on both sides)
			norm := func(x string) string {
				x = strings.ToValidUTF8(x, "\uFFFD")
				for strings.Contains(x, "\uFFFD\uFFFD") {
					x = strings.ReplaceAll(x, "\uFFFD\uFFFD", "\uFFFD")
				}
				return x
			}
			if norm(string(t.b)) == norm(s) {
				ev["dec"] = ev["in"]
			}
		}
	}
	return ev
}

func shapeOf(pos emitPos, via string) string {
	it := pos.build("benign")
	var data []byte
	var err error
	if via == "pkg" {
		data, err = ap.MarshalJSON(it)
	} else {
		data, err = it.(json.Marshaler).MarshalJSON()
	}
	if err != nil {
		return ""
	}
	doc, _, perr := parseNoDup(data)
	if perr != nil {
		return ""
	}
	var shape []string
	docShape(doc, "", &shape)
	sort.Strings(shape)
	return strings.Join(shape, "\n")
}

func isBad(ev J) bool {
	if ev["ev"] == "text" {
		return ev["err"] != "" || ev["out"] != ev["in"] || ev["tagsok"] != true
	}
	return ev["err"] != "" || ev["valid"] != true || ev["dup"] == true || ev["extra"] == true || ev["dec"] != ev["in"]
}

func init() {
	// vh c06-run strings.ndjson trace.ndjson stats.json <sampleEvery> <maxlen-all-positions>
	register("c06-run", func(args []string) error {
		strs, err := loadStrings(args[0])
		if err != nil {
			return err
		}
		w, err := newNDWriter(args[1])
		if err != nil {
			return err
		}
		sample, maxAll := atoi(args[3]), atoi(args[4])
		n, nbad := 0, 0
		for _, t := range strs {
			for _, codec := range []string{"json", "gob"} {
				for _, prop := range c06Props {
					for _, form := range c06Forms {
						if len(t.b) == 0 && form != "single" {
							continue
						}
						// longer strings: content/single/json and a rotation of the rest
						if len(t.Syms) > maxAll && len(t.Syms) < 100 && !(prop == "content" && form == "single") && (n+len(t.Syms))%17 != 0 {
							n++
							continue
						}
						ev := c06One(codec, prop, form, t)
						n++
						if isBad(ev) {
							nbad++
							if nbad > 3000 {
								continue
							}
							w.Write(ev)
						} else if n%sample == 0 {
							w.Write(ev)
						}
					}
				}
			}
		}
		if err := w.Close(); err != nil {
			return err
		}
		st, _ := json.Marshal(J{"evaluations": n, "bad": nbad, "strings": len(strs), "events": w.n})
		return writeFile(args[2], st)
	})
	// vh c02-run strings.ndjson trace.ndjson stats.json <sampleEvery> <maxlen-all-positions>
	register("c02-run", func(args []string) error {
		strs, err := loadStrings(args[0])
		if err != nil {
			return err
		}
		w, err := newNDWriter(args[1])
		if err != nil {
			return err
		}
		sample, maxAll := atoi(args[3]), atoi(args[4])
		n, nbad := 0, 0
		for pi, pos := range emitPositions {
			for _, via := range []string{"pkg", "type"} {
				base := shapeOf(pos, via)
				posBad := 0
				for si, t := range strs {
					if len(t.b) == 0 {
						continue
					}
					if len(t.Syms) > maxAll && (len(t.Syms) >= 100 && pi%4 != 0 || len(t.Syms) < 100 && (si+pi)%13 != 0) {
						continue
					}
					ev := emitOne(pos, via, t, base)
					n++
					if isBad(ev) {
						nbad++
						posBad++
						if posBad > 120 && len(t.Syms) > 1 {
							continue
						}
						w.Write(ev)
					} else if n%sample == 0 {
						delete(ev, "raw")
						w.Write(ev)
					}
				}
			}
		}
		if err := w.Close(); err != nil {
			return err
		}
		st, _ := json.Marshal(J{"evaluations": n, "bad": nbad, "strings": len(strs), "positions": len(emitPositions), "events": w.n})
		return writeFile(args[2], st)
	})
}
