package main

// C13: the six collection kinds driven through Append / Contains / Remove / Count.
// Output is a trace for CollectionsTrace.tla: a reset event, then one event per call with
// the arguments, the reply and the full projected contents (ids in container order).

import (
	"encoding/json"
	"fmt"
	"math/rand"
	"reflect"
	"strconv"
	"strings"

	ap "github.com/go-ap/activitypub"
)

const poolBase = "https://example.com/items/"

// poolItem builds a FRESH item for id: shape is a function of the id so that the pool has
// pairwise distinct identities in mixed shapes.
func poolItem(id int) ap.Item {
	iri := ap.IRI(poolBase + strconv.Itoa(id))
	switch id % 4 {
	case 0:
		return iri
	case 1:
		return &ap.Object{ID: iri, Type: ap.NoteType, Name: ap.DefaultNaturalLanguageValue("note " + strconv.Itoa(id))}
	case 2:
		return &ap.Actor{ID: iri, Type: ap.PersonType, Inbox: iri + "/inbox"}
	default:
		return &ap.Activity{ID: iri, Type: ap.CreateType, Object: ap.IRI(poolBase + "obj/" + strconv.Itoa(id))}
	}
}

// idOfItem recovers the pool id of an item without using the library's accessors.
func idOfItem(it ap.Item) int {
	if it == nil {
		return -1
	}
	var s string
	v := reflect.ValueOf(it)
	for v.Kind() == reflect.Ptr {
		if v.IsNil() {
			return -1
		}
		v = v.Elem()
	}
	switch v.Kind() {
	case reflect.String:
		s = v.String()
	case reflect.Struct:
		s = v.FieldByName("ID").String()
	default:
		return -2
	}
	if !strings.HasPrefix(s, poolBase) {
		return -3
	}
	n, err := strconv.Atoi(s[len(poolBase):])
	if err != nil {
		return -4
	}
	return n
}

func newContainer(kind string) (ap.CollectionInterface, error) {
	id := ap.IRI("https://example.com/col")
	switch kind {
	case "ItemCollection":
		return &ap.ItemCollection{}, nil
	case "IRIs":
		return &ap.IRIs{}, nil
	case "Collection":
		return &ap.Collection{ID: id, Type: ap.CollectionType}, nil
	case "CollectionPage":
		return &ap.CollectionPage{ID: id, Type: ap.CollectionPageType}, nil
	case "OrderedCollection":
		return &ap.OrderedCollection{ID: id, Type: ap.OrderedCollectionType}, nil
	case "OrderedCollectionPage":
		return &ap.OrderedCollectionPage{ID: id, Type: ap.OrderedCollectionPageType}, nil
	}
	return nil, fmt.Errorf("unknown kind %q", kind)
}

// contentsOf projects the container to the sequence of member ids, read straight from the
// member slice by reflection (not through Collection()).
func contentsOf(c ap.CollectionInterface) []int {
	v := reflect.ValueOf(c).Elem()
	var sl reflect.Value
	switch v.Kind() {
	case reflect.Slice:
		sl = v
	case reflect.Struct:
		sl = v.FieldByName("Items")
		if !sl.IsValid() {
			sl = v.FieldByName("OrderedItems")
		}
	}
	out := make([]int, 0, sl.Len())
	for i := 0; i < sl.Len(); i++ {
		e := sl.Index(i).Interface()
		if iri, ok := e.(ap.IRI); ok {
			out = append(out, idOfItem(iri))
		} else {
			out = append(out, idOfItem(e.(ap.Item)))
		}
	}
	return out
}

type c13op struct {
	O  string `json:"o"`
	X  *int   `json:"x,omitempty"`
	Xs []int  `json:"xs,omitempty"`
}

type c13ev struct {
	Ev   string `json:"ev"`
	Kind string `json:"kind,omitempty"`
	Op   *c13op `json:"op,omitempty"`
	Post []int  `json:"post,omitempty"`
	Res  J      `json:"res,omitempty"`
	Note string `json:"note,omitempty"`
}

func c13apply(kind string, c ap.CollectionInterface, op c13op) (res J) {
	defer func() {
		if r := recover(); r != nil {
			res = J{"k": "panic", "msg": fmt.Sprint(r)}
		}
	}()
	switch op.O {
	case "Append":
		if err := c.Append(poolItem(*op.X)); err != nil {
			return J{"k": "err"}
		}
		return J{"k": "ok"}
	case "AppendMany":
		its := make([]ap.Item, len(op.Xs))
		for i, x := range op.Xs {
			its[i] = poolItem(x)
		}
		if err := c.Append(its...); err != nil {
			return J{"k": "err"}
		}
		return J{"k": "ok"}
	case "Contains":
		return J{"k": "bool", "b": c.Contains(poolItem(*op.X))}
	case "Remove":
		// Remove through the collection's item-list view
		view, err := ap.ToItemCollection(c)
		if err != nil {
			return J{"k": "err"}
		}
		view.Remove(poolItem(*op.X))
		return J{"k": "ok"}
	case "Count":
		n := c.Count()
		// Collection() must expose the same members
		if int(n) != len(c.Collection()) {
			return J{"k": "n", "n": int(n), "collection_len": len(c.Collection())}
		}
		return J{"k": "n", "n": int(n)}
	case "IRIs":
		ids := []int{}
		for _, iri := range c.Collection().IRIs() {
			ids = append(ids, idOfItem(iri))
		}
		return J{"k": "ids", "ids": ids}
	case "Normalize":
		n := c.Collection().Normalize()
		switch v := n.(type) {
		case nil:
			return J{"k": "none"}
		case ap.ItemCollection:
			ids := []int{}
			for _, it := range v {
				ids = append(ids, idOfItem(it))
			}
			return J{"k": "ids", "ids": ids}
		default:
			return J{"k": "id", "id": idOfItem(n)}
		}
	case "ItemsMatch":
		its := make([]ap.Item, len(op.Xs))
		for i, x := range op.Xs {
			its[i] = poolItem(x)
		}
		return J{"k": "bool", "b": c.Collection().ItemsMatch(its...)}
	case "First":
		col := c.Collection()
		if len(col) == 0 {
			return J{"k": "none"}
		}
		return J{"k": "id", "id": idOfItem(col.First())}
	}
	return J{"k": "unknown-op"}
}

// c13reload persists the container with one of the codecs and reads it back into a fresh container of the same kind
func c13reload(kind string, c ap.CollectionInterface, codec string) (ap.CollectionInterface, J) {
	var out ap.Item
	err := safely(func() error {
		var b []byte
		var e error
		if codec == "json" {
			if b, e = ap.MarshalJSON(c); e != nil {
				return e
			}
			out, e = ap.UnmarshalJSON(b)
			return e
		}
		if b, e = ap.GobEncode(c); e != nil {
			return e
		}
		out, e = ap.GobDecode(b)
		return e
	})
	if err != nil {
		return c, J{"k": "err", "msg": err.Error()}
	}
	nc, ok := out.(ap.CollectionInterface)
	if !ok || reflect.TypeOf(out) != reflect.TypeOf(c) {
		return c, J{"k": "err", "msg": fmt.Sprintf("reloaded as %T", out)}
	}
	return nc, J{"k": "ok"}
}

func c13emit(w *ndWriter, kind string, c ap.CollectionInterface, op c13op) {
	res := c13apply(kind, c, op)
	post := contentsOf(c)
	// the item-list view and Collection() must show the same members as the raw slice
	col := c.Collection()
	if len(col) == len(post) {
		for i := range col {
			if idOfItem(col[i]) != post[i] {
				res["view_mismatch"] = true
			}
		}
	} else {
		res["view_mismatch"] = true
	}
	w.Write(J{"ev": "op", "op": op, "post": append([]int{}, post...), "res": res})
}

func init() {
	// vh c13-replay cases.ndjson trace.ndjson
	register("c13-replay", func(args []string) error {
		w, err := newNDWriter(args[1])
		if err != nil {
			return err
		}
		err = readNDJSON(args[0], func(raw []byte) error {
			var cs struct {
				Kind string `json:"kind"`
				Pre  []int  `json:"pre"`
				Op   c13op  `json:"op"`
			}
			if err := json.Unmarshal(raw, &cs); err != nil {
				return err
			}
			c, err := newContainer(cs.Kind)
			if err != nil {
				return err
			}
			w.Write(c13ev{Ev: "reset", Kind: cs.Kind})
			for _, id := range cs.Pre {
				x := id
				c13emit(w, cs.Kind, c, c13op{O: "Append", X: &x})
			}
			c13emit(w, cs.Kind, c, cs.Op)
			return nil
		})
		if err != nil {
			return err
		}
		return w.Close()
	})
	// vh c13-ops histories.ndjson trace.ndjson   (each line: {"kind":K,"ops":[...]})
	register("c13-ops", func(args []string) error {
		w, err := newNDWriter(args[1])
		if err != nil {
			return err
		}
		err = readNDJSON(args[0], func(raw []byte) error {
			var cs struct {
				Kind string  `json:"kind"`
				Ops  []c13op `json:"ops"`
			}
			if err := json.Unmarshal(raw, &cs); err != nil {
				return err
			}
			c, err := newContainer(cs.Kind)
			if err != nil {
				return err
			}
			w.Write(c13ev{Ev: "reset", Kind: cs.Kind})
			for _, op := range cs.Ops {
				c13emit(w, cs.Kind, c, op)
			}
			return nil
		})
		if err != nil {
			return err
		}
		return w.Close()
	})
	// vh c13-drive <traces> <len> <ids> trace.ndjson
	register("c13-drive", func(args []string) error {
		nTraces, length, ids := atoi(args[0]), atoi(args[1]), atoi(args[2])
		w, err := newNDWriter(args[3])
		if err != nil {
			return err
		}
		rng := rand.New(rand.NewSource(seed()))
		kinds := []string{"ItemCollection", "IRIs", "Collection", "CollectionPage", "OrderedCollection", "OrderedCollectionPage"}
		for t := 0; t < nTraces; t++ {
			kind := kinds[t%len(kinds)]
			c, _ := newContainer(kind)
			w.Write(c13ev{Ev: "reset", Kind: kind})
			for s := 0; s < length; s++ {
				x := 1 + rng.Intn(ids)
				var op c13op
				switch r := rng.Intn(10); {
				case r < 4:
					op = c13op{O: "Append", X: &x}
				case r < 6:
					op = c13op{O: "Contains", X: &x}
				case r < 8:
					if kind == "IRIs" {
						op = c13op{O: "Contains", X: &x}
					} else {
						op = c13op{O: "Remove", X: &x}
					}
				case r < 9:
					op = c13op{O: "Count"}
				case r < 10 && s%7 == 3:
					op = c13op{O: []string{"IRIs", "Normalize", "First"}[rng.Intn(3)]}
				default:
					op = c13op{O: "AppendMany", Xs: []int{x, 1 + rng.Intn(ids), 1 + rng.Intn(ids)}}
				}
				if (op.O == "Count" || op.O == "Contains") && kind != "ItemCollection" && kind != "IRIs" && rng.Intn(6) == 0 {
					// now and then the container is persisted and read back before the history goes on
					codec := []string{"json", "gob"}[rng.Intn(2)]
					nc, res := c13reload(kind, c, codec)
					c = nc
					name := "SaveLoadJSON"
					if codec == "gob" {
						name = "SaveLoadGob"
					}
					w.Write(J{"ev": "op", "op": c13op{O: name}, "post": append([]int{}, contentsOf(c)...), "res": res})
				}
				c13emit(w, kind, c, op)
			}
		}
		return w.Close()
	})
}
