package main

// C09: ItemsEqual on TLC-generated pairs (one per law) and on random values with copies and
// single-property mutations.  Events for EqualityTrace.tla: {ev:"eq", x, y, res}.

import (
	"encoding/json"
	"fmt"
	"math/rand"
	"time"

	ap "github.com/go-ap/activitypub"
)

func buildItemX(a J) ap.Item {
	// a nil item list (nil-like) is marked by the generator
	if a["k"] == "list" && a["nilslice"] == true {
		return ap.ItemCollection(nil)
	}
	return buildItem(a)
}

func eqCall(x, y ap.Item) J {
	ch := make(chan J, 1)
	go func() {
		defer func() {
			if r := recover(); r != nil {
				ch <- J{"k": "panic", "msg": fmt.Sprint(r)}
			}
		}()
		ch <- J{"k": "bool", "b": ap.ItemsEqual(x, y)}
	}()
	select {
	case r := <-ch:
		return r
	case <-time.After(5 * time.Second):
		return J{"k": "timeout"}
	}
}

func withPtr(a J, ptr bool) J {
	if a["k"] != "obj" {
		return a
	}
	cp := J{}
	for k, v := range a {
		cp[k] = v
	}
	cp["ptr"] = ptr
	return cp
}

func c09emit(w *ndWriter, x, y J, n int) {
	// value vs pointer form is not part of identity: rotate the four combinations
	bx, by := buildItemX(withPtr(x, n%2 == 0)), buildItemX(withPtr(y, (n/2)%2 == 0))
	w.Write(J{"ev": "eq", "x": x, "y": y, "res": eqCall(bx, by), "forms": n % 4})
}

func init() {
	// vh c09-replay pairs.ndjson trace.ndjson
	register("c09-replay", func(args []string) error {
		w, err := newNDWriter(args[1])
		if err != nil {
			return err
		}
		n := 0
		err = readNDJSON(args[0], func(raw []byte) error {
			var c struct{ X, Y J }
			if err := json.Unmarshal(raw, &c); err != nil {
				return err
			}
			n++
			c09emit(w, c.X, c.Y, n)
			return nil
		})
		if err != nil {
			return err
		}
		return w.Close()
	})
	// vh c09-drive <n> <depth> trace.ndjson : random values against themselves (fresh copies)
	register("c09-drive", func(args []string) error {
		n, depth := atoi(args[0]), atoi(args[1])
		w, err := newNDWriter(args[2])
		if err != nil {
			return err
		}
		g := &randGen{rng: rand.New(rand.NewSource(seed()))}
		for i := 0; i < n; i++ {
			gt := goTypeNames[i%len(goTypeNames)]
			g.budget = 12
			v := normJ(g.object(gt, 1+g.rng.Intn(depth), false))
			c09emit(w, v, v, i) // reflexivity on a structurally equal fresh copy
			// against nil-likes
			c09emit(w, v, J{"k": "nil"}, i)
			c09emit(w, J{"k": "iri", "iri": "-"}, v, i)
		}
		return w.Close()
	})
}
