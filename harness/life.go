package main

// Lifecycle: histories of flatten / clean / JSON round trip / gob round trip applied to one value on the
// real code; one event per step for LifecycleTrace.tla.

import (
	"encoding/json"
	"fmt"

	ap "github.com/go-ap/activitypub"
)

func init() {
	register("life-run", func(args []string) error {
		w, err := newNDWriter(args[1])
		if err != nil {
			return err
		}
		err = readNDJSON(args[0], func(raw []byte) error {
			var c struct {
				Lab J        `json:"lab"`
				V   J        `json:"v"`
				Ops []string `json:"ops"`
			}
			if err := json.Unmarshal(raw, &c); err != nil {
				return err
			}
			it := buildItem(c.V)
			for i, op := range c.Ops {
				pre := projectItem(it)
				e := safely(func() error {
					switch op {
					case "flatten":
						ap.FlattenProperties(it)
					case "clean":
						if hr, ok := it.(ap.HasRecipients); ok {
							hr.Clean()
						} else {
							return fmt.Errorf("value of type %T offers no Clean()", it)
						}
					case "json":
						b, err := ap.MarshalJSON(it)
						if err != nil {
							return err
						}
						it, err = ap.UnmarshalJSON(b)
						return err
					case "gob":
						b, err := ap.GobEncode(it)
						if err != nil {
							return err
						}
						it, err = ap.GobDecode(b)
						return err
					}
					return nil
				})
				ev := J{"ev": "step", "op": op, "n": i, "lab": c.Lab, "ops": c.Ops, "pre": pre, "post": projectItem(it), "err": ""}
				if e != nil {
					ev["err"] = e.Error()
				}
				w.Write(ev)
				if e != nil || it == nil {
					break
				}
			}
			return nil
		})
		if err != nil {
			return err
		}
		return w.Close()
	})
}
