package main

// C17: ItemOrderTimestamp on all pairs of abstract items in every Go object type (value and
// pointer form) and zone presentation; sort.Slice on lists.  Events for OrderTrace.tla.

import (
	"encoding/json"
	"fmt"
	"math/rand"
	"reflect"
	"sort"
	"time"

	ap "github.com/go-ap/activitypub"
)

type ordItem struct {
	K string `json:"k"`
	P int    `json:"p"`
	U int    `json:"u"`
}

func (o ordItem) MarshalJSON() ([]byte, error) {
	if o.K == "nil" {
		return []byte(`{"k":"nil"}`), nil
	}
	return []byte(fmt.Sprintf(`{"k":"obj","p":%d,"u":%d}`, o.P, o.U)), nil
}

var ordZones = []*time.Location{time.UTC, time.FixedZone("plus2", 2*3600), time.FixedZone("minus7", -7*3600)}

const ordBase = 1700000000

// instants are 45 minutes apart so that zone offsets (hours) reorder their wall-clock readings
func ordTime(k int, zone int) time.Time {
	if k == 0 {
		return time.Time{}
	}
	if k >= 3 { // instants 2 and 3 (4 and 5, ...) differ by one nanosecond only: a comparator working on whole seconds ties them
		return time.Unix(ordBase+int64(k-1)*2700, int64(k-2)).In(ordZones[zone%len(ordZones)])
	}
	return time.Unix(ordBase+int64(k)*2700, 0).In(ordZones[zone%len(ordZones)])
}

func ordInstant(t time.Time) int {
	if t.IsZero() {
		return 0
	}
	d := t.Unix() - ordBase
	if d%2700 != 0 {
		return -1
	}
	if t.Nanosecond() > 0 {
		return int(d/2700) + 1
	}
	return int(d / 2700)
}

var objectTypesGo = []reflect.Type{
	reflect.TypeOf(ap.Object{}), reflect.TypeOf(ap.Actor{}), reflect.TypeOf(ap.Activity{}),
	reflect.TypeOf(ap.IntransitiveActivity{}), reflect.TypeOf(ap.Question{}), reflect.TypeOf(ap.Place{}),
	reflect.TypeOf(ap.Profile{}), reflect.TypeOf(ap.Relationship{}), reflect.TypeOf(ap.Tombstone{}),
	reflect.TypeOf(ap.Collection{}), reflect.TypeOf(ap.CollectionPage{}), reflect.TypeOf(ap.OrderedCollection{}),
	reflect.TypeOf(ap.OrderedCollectionPage{}),
}

// ordBuild builds the item in Go form f (type = f/2, pointer if f odd) with zones zp, zu
func ordBuild(o ordItem, f, zp, zu int) ap.Item {
	if o.K == "nil" {
		return nil
	}
	t := objectTypesGo[(f/2)%len(objectTypesGo)]
	v := reflect.New(t)
	v.Elem().FieldByName("ID").SetString(fmt.Sprintf("https://example.com/o/%d-%d", o.P, o.U))
	v.Elem().FieldByName("Published").Set(reflect.ValueOf(ordTime(o.P, zp)))
	v.Elem().FieldByName("Updated").Set(reflect.ValueOf(ordTime(o.U, zu)))
	if f%2 == 1 {
		return v.Interface().(ap.Item)
	}
	return v.Elem().Interface().(ap.Item)
}

func ordProject(it ap.Item) ordItem {
	if it == nil {
		return ordItem{K: "nil"}
	}
	v := reflect.ValueOf(it)
	if v.Kind() == reflect.Ptr {
		v = v.Elem()
	}
	return ordItem{K: "obj", P: ordInstant(v.FieldByName("Published").Interface().(time.Time)),
		U: ordInstant(v.FieldByName("Updated").Interface().(time.Time))}
}

func ordLess(a, b ap.Item) (res J) {
	defer func() {
		if r := recover(); r != nil {
			res = J{"k": "panic", "msg": fmt.Sprint(r)}
		}
	}()
	return J{"k": "bool", "b": ap.ItemOrderTimestamp(a, b)}
}

func ordSortEvent(w *ndWriter, in []ordItem, rng *rand.Rand) {
	items := make(ap.ItemCollection, len(in))
	for i, o := range in {
		items[i] = ordBuild(o, rng.Intn(2*len(objectTypesGo)), rng.Intn(3), rng.Intn(3))
	}
	panicked := false
	func() {
		defer func() {
			if r := recover(); r != nil {
				panicked = true
			}
		}()
		sort.Slice(items, func(i, j int) bool { return ap.ItemOrderTimestamp(items[i], items[j]) })
	}()
	out := make([]ordItem, len(items))
	for i, it := range items {
		out[i] = ordProject(it)
	}
	ev := J{"ev": "sort", "in": in, "out": out}
	if panicked {
		ev["out"] = []ordItem{}
		ev["panic"] = true
	}
	w.Write(ev)
}

func init() {
	// vh c17-replay pairs.ndjson lists.ndjson trace.ndjson <forms: all|rot>
	register("c17-replay", func(args []string) error {
		w, err := newNDWriter(args[2])
		if err != nil {
			return err
		}
		all := args[3] == "all"
		rng := rand.New(rand.NewSource(seed()))
		nf := 2 * len(objectTypesGo)
		n := 0
		err = readNDJSON(args[0], func(raw []byte) error {
			var cs struct{ A, B ordItem }
			if err := json.Unmarshal(raw, &cs); err != nil {
				return err
			}
			for fa := 0; fa < nf; fa++ {
				for k := 0; k < nf; k++ {
					fb := k
					if !all {
						if k > 1 {
							break
						}
						fb = (fa + n + k*7) % nf
					}
					za, zb, zc, zd := rng.Intn(3), rng.Intn(3), rng.Intn(3), rng.Intn(3)
					res := ordLess(ordBuild(cs.A, fa, za, zb), ordBuild(cs.B, fb, zc, zd))
					w.Write(J{"ev": "less", "a": cs.A, "b": cs.B, "res": res, "fa": fa, "fb": fb, "z": []int{za, zb, zc, zd}})
					n++
				}
			}
			return nil
		})
		if err != nil {
			return err
		}
		err = readNDJSON(args[1], func(raw []byte) error {
			var cs struct{ Xs []ordItem }
			if err := json.Unmarshal(raw, &cs); err != nil {
				return err
			}
			ordSortEvent(w, cs.Xs, rng)
			return nil
		})
		if err != nil {
			return err
		}
		return w.Close()
	})
	// vh c17-drive <lists> <maxlen> <instants> trace.ndjson : random longer lists and pairs over more instants
	register("c17-drive", func(args []string) error {
		n, maxlen, inst := atoi(args[0]), atoi(args[1]), atoi(args[2])
		w, err := newNDWriter(args[3])
		if err != nil {
			return err
		}
		rng := rand.New(rand.NewSource(seed()))
		rnd := func() ordItem {
			if rng.Intn(8) == 0 {
				return ordItem{K: "nil"}
			}
			return ordItem{K: "obj", P: rng.Intn(inst + 1), U: rng.Intn(inst + 1)}
		}
		for i := 0; i < n; i++ {
			l := rng.Intn(maxlen + 1)
			in := make([]ordItem, l)
			for j := range in {
				in[j] = rnd()
			}
			ordSortEvent(w, in, rng)
			a, b := rnd(), rnd()
			fa, fb := rng.Intn(26), rng.Intn(26)
			z := []int{rng.Intn(3), rng.Intn(3), rng.Intn(3), rng.Intn(3)}
			w.Write(J{"ev": "less", "a": a, "b": b, "res": ordLess(ordBuild(a, fa, z[0], z[1]), ordBuild(b, fb, z[2], z[3])), "fa": fa, "fb": fb, "z": z})
		}
		return w.Close()
	})
	// vh c17-one event.json trace.ndjson : re-execute one recorded event
	register("c17-one", func(args []string) error {
		raw, err := readFile(args[0])
		if err != nil {
			return err
		}
		var ev struct {
			Ev   string
			A, B ordItem
			Fa   int
			Fb   int
			Z    []int
			In   []ordItem
		}
		if err := json.Unmarshal(raw, &ev); err != nil {
			return err
		}
		w, err := newNDWriter(args[1])
		if err != nil {
			return err
		}
		if ev.Ev == "less" {
			for len(ev.Z) < 4 {
				ev.Z = append(ev.Z, 0)
			}
			w.Write(J{"ev": "less", "a": ev.A, "b": ev.B, "res": ordLess(ordBuild(ev.A, ev.Fa, ev.Z[0], ev.Z[1]), ordBuild(ev.B, ev.Fb, ev.Z[2], ev.Z[3])), "fa": ev.Fa, "fb": ev.Fb, "z": ev.Z})
		} else {
			ordSortEvent(w, ev.In, rand.New(rand.NewSource(seed())))
		}
		return w.Close()
	})
}
