package main

// Random well-formed abstract values (the V-leg generator): arbitrary subsets of properties,
// nesting to a given depth.  Well-formedness follows the properties' quantifier texts:
// absolute IRIs, type names of the struct's family, distinct ids within a list, distinct real
// language tags in multi-language values, whole-second durations, whole seconds for JSON.

import (
	"encoding/json"
	"fmt"
	"math/rand"
	"reflect"
)

type randGen struct {
	rng    *rand.Rand
	gob    bool
	idSeq  int
	budget int // remaining embedded objects for the value being built
}

var typeNamesFor = map[string][]string{
	"Object":               {"Article", "Audio", "Document", "Event", "Image", "Note", "Page", "Video", "Object"},
	"Actor":                {"Application", "Group", "Organization", "Person", "Service", "Actor"},
	"Activity":             {"Accept", "Add", "Announce", "Block", "Create", "Delete", "Dislike", "Flag", "Follow", "Ignore", "Invite", "Join", "Leave", "Like", "Listen", "Move", "Offer", "Reject", "Read", "Remove", "TentativeReject", "TentativeAccept", "Undo", "Update", "View", "Activity"},
	"IntransitiveActivity": {"Arrive", "Travel", "IntransitiveActivity"},
	"Question":             {"Question"}, "Collection": {"Collection"}, "CollectionPage": {"CollectionPage"},
	"OrderedCollection": {"OrderedCollection"}, "OrderedCollectionPage": {"OrderedCollectionPage"},
	"Place": {"Place"}, "Profile": {"Profile"}, "Relationship": {"Relationship"}, "Tombstone": {"Tombstone"},
	"Link": {"Link", "Mention"},
}

func (g *randGen) iriStr() string {
	g.idSeq++
	hosts := []string{"example.com", "social.example.org", "example.com:8443"}
	return fmt.Sprintf("https://%s/o/%d", hosts[g.rng.Intn(len(hosts))], g.idSeq)
}

func (g *randGen) str(s string) J { return J{"k": "str", "s": s} }

func (g *randGen) nlv() J {
	texts := []string{"hello", "a b c", "<p>html &amp; more</p>", "x", "It's", "tab\tsep", "line1\nline2", "q\"uote"}
	tags := []string{"en", "fr", "de", "ro", "en-US"}
	n := 1
	if g.rng.Intn(3) == 0 {
		n = 2 + g.rng.Intn(3)
	}
	es := []J{}
	if n == 1 {
		tag := "-"
		if g.rng.Intn(3) == 0 {
			tag = tags[g.rng.Intn(len(tags))]
		}
		return J{"k": "nlv", "e": []J{{"r": tag, "t": texts[g.rng.Intn(5)]}}}
	}
	for _, p := range g.rng.Perm(len(tags))[:n] {
		es = append(es, J{"r": tags[p], "t": texts[g.rng.Intn(5)]})
	}
	return J{"k": "nlv", "e": es}
}

func (g *randGen) time() J {
	offs := []int{0, 0, 3600, -25200, 19800}
	t := J{"k": "time", "s": 1500000000 + g.rng.Intn(300000000), "ns": 0, "off": offs[g.rng.Intn(len(offs))]}
	if g.gob && g.rng.Intn(2) == 0 {
		t["ns"] = g.rng.Intn(1000000000)
	}
	return t
}

func (g *randGen) item(depth int) J {
	switch r := g.rng.Intn(10); {
	case r < 4 || depth <= 0 || g.budget <= 0:
		return J{"k": "iri", "iri": g.iriStr()}
	case r < 8:
		return g.object(goTypeNames[g.rng.Intn(len(goTypeNames))], depth-1, true)
	default:
		return g.list(depth, 2+g.rng.Intn(3))
	}
}

func (g *randGen) list(depth, n int) J {
	es := []J{}
	for i := 0; i < n; i++ {
		if depth <= 0 || g.budget <= 0 || g.rng.Intn(2) == 0 {
			es = append(es, J{"k": "iri", "iri": g.iriStr()})
		} else {
			// members of one list carry pairwise distinct ids
			o := g.object(goTypeNames[g.rng.Intn(len(goTypeNames))], depth-1, true)
			p := o["p"].(J)
			if _, ok := p["id"]; !ok {
				p["id"] = g.str(g.iriStr())
				if _, ok := p["type"]; !ok {
					p["type"] = g.str("Note")
				}
			}
			es = append(es, o)
		}
	}
	return J{"k": "list", "e": es}
}

// object builds a value of Go type gt with a random subset of its properties
func (g *randGen) object(gt string, depth int, embedded bool) J {
	g.budget--
	t := goTypes[gt]
	p := J{}
	names := typeNamesFor[gt]
	p["type"] = g.str(names[g.rng.Intn(len(names))])
	if gt == "Link" {
		p["href"] = g.str(g.iriStr())
	}
	if gt != "Link" || g.rng.Intn(2) == 0 {
		p["id"] = g.str(g.iriStr())
	}
	if embedded && gt == "Object" && g.rng.Intn(6) == 0 {
		// embedded objects may lack type and id
		delete(p, "type")
		delete(p, "id")
		p["name"] = J{"k": "nlv", "e": []J{{"r": "-", "t": "tag"}}}
	}
	density := 6
	if !embedded && g.rng.Intn(5) == 0 {
		density = 1 // occasionally set (almost) everything at the top level
	} else if embedded {
		density = 9
	}
	for i := 0; i < t.NumField(); i++ {
		f := t.Field(i)
		term := termOf(f)
		if term == "id" || term == "type" || g.rng.Intn(density) != 0 {
			continue
		}
		if v := g.prop(gt, term, f.Type, depth); v != nil {
			p[term] = v
		}
	}
	return J{"k": "obj", "g": gt, "ptr": true, "p": p}
}

func (g *randGen) prop(gt, term string, ft reflect.Type, depth int) J {
	switch kindOfField(ft) {
	case "item":
		return g.item(depth)
	case "items":
		return g.list(depth, 1+g.rng.Intn(3))
	case "nlv":
		return g.nlv()
	case "time":
		return g.time()
	case "dur":
		d := g.rng.Intn(100000) - 20000
		if d == 0 {
			d = 7
		}
		return J{"k": "dur", "s": d, "ns": 0}
	case "bool":
		return J{"k": "bool", "b": true}
	case "float":
		fs := []string{"36.75", "-122.5", "0.5", "100", "-0.25", "89.999"}
		return J{"k": "float", "f": fs[g.rng.Intn(len(fs))]}
	case "int":
		n := 1 + g.rng.Intn(5000)
		if ft.Kind() == reflect.Int64 && g.rng.Intn(2) == 0 {
			n = -n
		}
		return J{"k": "int", "n": n}
	case "str":
		switch term {
		case "mediaType":
			return g.str([]string{"text/html", "text/plain", "image/png"}[g.rng.Intn(3)])
		case "formerType":
			return g.str("Note")
		case "rel", "href":
			return g.str(g.iriStr())
		case "hreflang":
			return g.str("en")
		case "units":
			return g.str([]string{"m", "km", "miles", "feet"}[g.rng.Intn(4)])
		}
		return g.str("value")
	case "source":
		p := J{"content": g.nlv()}
		if g.rng.Intn(2) == 0 {
			p["mediaType"] = g.str("text/markdown")
		}
		return J{"k": "source", "p": p}
	case "endpoints":
		p := J{}
		for _, t := range []string{"uploadMedia", "oauthAuthorizationEndpoint", "oauthTokenEndpoint", "provideClientKey", "signClientKey", "sharedInbox", "proxyUrl"} {
			if g.rng.Intn(2) == 0 {
				p[t] = J{"k": "iri", "iri": g.iriStr()}
			}
		}
		if len(p) == 0 {
			return nil
		}
		return J{"k": "endpoints", "p": p}
	case "pubkey":
		id := g.iriStr()
		return J{"k": "pubkey", "p": J{"id": g.str(id + "#main-key"), "owner": g.str(id), "publicKeyPem": g.str("-----BEGIN PUBLIC KEY-----\nMIIBIjANBg\n-----END PUBLIC KEY-----")}}
	}
	return nil
}

// normJ turns generator output (typed slices) into the generic form json.Unmarshal yields
func normJ(v J) J {
	b, err := json.Marshal(v)
	if err != nil {
		panic(err)
	}
	var out J
	if err := json.Unmarshal(b, &out); err != nil {
		panic(err)
	}
	return out
}

func init() {
	// vh rt-drive <json|gob> <n> <depth> trace.ndjson
	register("rt-drive", func(args []string) error {
		n, depth := atoi(args[1]), atoi(args[2])
		w, err := newNDWriter(args[3])
		if err != nil {
			return err
		}
		g := &randGen{rng: rand.New(rand.NewSource(seed())), gob: args[0] == "gob"}
		for i := 0; i < n; i++ {
			gt := goTypeNames[i%len(goTypeNames)]
			g.budget = 25
			v := normJ(g.object(gt, 1+g.rng.Intn(depth), false))
			rtRun(w, args[0], rtCase{Lab: J{"fam": "random", "g": gt, "t": "*", "shape": "random"}, V: v}, i)
		}
		return w.Close()
	})
}
