package main

// C10: Recipients() on every addressable Go type.  Cases are transitions printed by the
// Recipients machine (TLC); random larger cases come from the driver.  Events for RecipientsTrace.tla.

import (
	"encoding/json"
	"fmt"
	"math/rand"
	"reflect"
	"strconv"
	"strings"

	ap "github.com/go-ap/activitypub"
)

type rEntry struct {
	W int    `json:"w"`
	F string `json:"f"`
}

type rValue struct {
	Class  string   `json:"class"`
	Actor  rEntry   `json:"actor"`
	Object rEntry   `json:"object"`
	To     []rEntry `json:"to"`
	CC     []rEntry `json:"cc"`
	Bto    []rEntry `json:"bto"`
	BCC    []rEntry `json:"bcc"`
	Aud    []rEntry `json:"aud"`
}

func rBase(w int) string {
	if w == 9 {
		return string(ap.PublicNS)
	}
	return "http://example.com/actors/" + strconv.Itoa(w)
}

func rItem(e rEntry) ap.Item {
	if e.W == 0 {
		return nil
	}
	b := rBase(e.W)
	switch e.F {
	case "iri":
		return ap.IRI(b)
	case "https":
		return ap.IRI("https" + strings.TrimPrefix(b, "http"))
	case "upper":
		return ap.IRI(strings.Replace(b, "example.com", "EXAMPLE.COM", 1))
	case "slash":
		return ap.IRI(b + "/")
	case "pathcase": // path letter case AND a trailing slash at once
		return ap.IRI(strings.Replace(b, "/actors/", "/Actors/", 1) + "/")
	case "actor":
		return &ap.Actor{ID: ap.IRI(b), Type: ap.PersonType, Inbox: ap.IRI(b + "/inbox")}
	case "object":
		return &ap.Object{ID: ap.IRI(b), Type: ap.NoteType}
	case "list1": // the addressee as the only member of a list (what a JSON array of one decodes to)
		return ap.ItemCollection{&ap.Actor{ID: ap.IRI(b), Type: ap.PersonType}}
	}
	panic("unknown form " + e.F)
}

// rProject maps a concrete entry back to [w, f] without library accessors
func rProject(it ap.Item) rEntry {
	if it == nil {
		return rEntry{0, "nil"}
	}
	v := reflect.ValueOf(it)
	form := ""
	for v.Kind() == reflect.Ptr {
		if v.IsNil() {
			return rEntry{0, "typed-nil"}
		}
		v = v.Elem()
	}
	var s string
	switch v.Kind() {
	case reflect.Slice:
		if v.Len() == 1 {
			if m, ok := v.Index(0).Interface().(ap.Item); ok {
				return rEntry{rProject(m).W, "list1"}
			}
		}
		return rEntry{-1, "unknown"}
	case reflect.String:
		s = v.String()
	case reflect.Struct:
		s = v.FieldByName("ID").String()
		if v.Type().Name() == "Actor" {
			form = "actor"
		} else {
			form = "object"
		}
	default:
		return rEntry{-1, "unknown"}
	}
	if form != "" {
		return rEntry{rWho(s), form}
	}
	switch {
	case s == string(ap.PublicNS):
		return rEntry{9, "iri"}
	case strings.HasPrefix(s, "https://example.com/actors/"):
		return rEntry{rWho(s), "https"}
	case strings.HasPrefix(s, "http://EXAMPLE.COM/actors/"):
		return rEntry{rWho(s), "upper"}
	case strings.Contains(s, "/Actors/"):
		return rEntry{rWho(strings.TrimSuffix(strings.Replace(s, "/Actors/", "/actors/", 1), "/")), "pathcase"}
	case strings.HasSuffix(s, "/"):
		return rEntry{rWho(strings.TrimSuffix(s, "/")), "slash"}
	default:
		return rEntry{rWho(s), "iri"}
	}
}

func rWho(s string) int {
	if s == string(ap.PublicNS) {
		return 9
	}
	i := strings.LastIndex(s, "/actors/")
	if i < 0 {
		return -1
	}
	n, err := strconv.Atoi(s[i+len("/actors/"):])
	if err != nil {
		return -1
	}
	return n
}

func rList(es []rEntry) ap.ItemCollection {
	if es == nil {
		return nil
	}
	l := make(ap.ItemCollection, 0, len(es)+2) // spare capacity, as decoded values often have
	for _, e := range es {
		l = append(l, rItem(e))
	}
	return l
}

func rProjList(l ap.ItemCollection) []rEntry {
	out := make([]rEntry, 0, len(l))
	for _, it := range l {
		out = append(out, rProject(it))
	}
	return out
}

var rPlainTypes = []string{"Object", "Actor", "Place", "Profile", "Relationship", "Tombstone", "Collection", "CollectionPage", "OrderedCollection", "OrderedCollectionPage"}

func rNew(gotype string) reflect.Value {
	switch gotype {
	case "Object":
		return reflect.ValueOf(&ap.Object{Type: ap.NoteType})
	case "Actor":
		return reflect.ValueOf(&ap.Actor{Type: ap.PersonType})
	case "Place":
		return reflect.ValueOf(&ap.Place{Type: ap.PlaceType})
	case "Profile":
		return reflect.ValueOf(&ap.Profile{Type: ap.ProfileType})
	case "Relationship":
		return reflect.ValueOf(&ap.Relationship{Type: ap.RelationshipType})
	case "Tombstone":
		return reflect.ValueOf(&ap.Tombstone{Type: ap.TombstoneType})
	case "Collection":
		return reflect.ValueOf(&ap.Collection{Type: ap.CollectionType})
	case "CollectionPage":
		return reflect.ValueOf(&ap.CollectionPage{Type: ap.CollectionPageType})
	case "OrderedCollection":
		return reflect.ValueOf(&ap.OrderedCollection{Type: ap.OrderedCollectionType})
	case "OrderedCollectionPage":
		return reflect.ValueOf(&ap.OrderedCollectionPage{Type: ap.OrderedCollectionPageType})
	case "Activity":
		return reflect.ValueOf(&ap.Activity{Type: ap.CreateType})
	case "Block":
		return reflect.ValueOf(&ap.Activity{Type: ap.BlockType})
	case "IntransitiveActivity":
		return reflect.ValueOf(&ap.IntransitiveActivity{Type: ap.ArriveType})
	case "Question":
		return reflect.ValueOf(&ap.Question{Type: ap.QuestionType})
	}
	panic("unknown go type " + gotype)
}

func rGoTypesFor(class string, n int, all bool) []string {
	switch class {
	case "plain":
		if all {
			return rPlainTypes
		}
		return []string{rPlainTypes[n%len(rPlainTypes)]}
	case "activity":
		return []string{"Activity"}
	case "block":
		return []string{"Block"}
	case "intransitive":
		return []string{"IntransitiveActivity"}
	case "question":
		return []string{"Question"}
	}
	panic("unknown class " + class)
}

// rBuild makes the real value an abstract addressed value describes
func rBuild(pre rValue, gotype string) reflect.Value {
	v := rNew(gotype)
	e := v.Elem()
	e.FieldByName("ID").SetString("https://example.com/values/1")
	set := func(name string, es []rEntry) {
		l := rList(es)
		if l != nil {
			e.FieldByName(name).Set(reflect.ValueOf(l))
		}
	}
	set("To", pre.To)
	set("CC", pre.CC)
	set("Bto", pre.Bto)
	set("BCC", pre.BCC)
	set("Audience", pre.Aud)
	if pre.Class == "intransitive" || pre.Class == "question" {
		if it := rItem(pre.Actor); it != nil {
			e.FieldByName("Actor").Set(reflect.ValueOf(it))
		}
	}
	if pre.Class == "block" {
		if it := rItem(pre.Object); it != nil {
			e.FieldByName("Object").Set(reflect.ValueOf(it))
		}
	}
	return v
}

func rRun(w *ndWriter, pre rValue, gotype string) {
	v := rBuild(pre, gotype)
	e := v.Elem()
	hr, ok := v.Interface().(ap.HasRecipients)
	if !ok {
		w.Write(J{"ev": "rcpt", "gotype": gotype, "pre": pre, "panic": true, "msg": "type has no Recipients()"})
		return
	}
	var ret ap.ItemCollection
	if p := guard(func() { ret = hr.Recipients() }); p != "" {
		w.Write(J{"ev": "rcpt", "gotype": gotype, "pre": pre, "panic": true, "msg": p,
			"post": J{"to": []int{}, "cc": []int{}, "bto": []int{}, "bcc": []int{}, "aud": []int{}}, "ret": []int{}})
		return
	}
	get := func(name string) []rEntry {
		return rProjList(e.FieldByName(name).Interface().(ap.ItemCollection))
	}
	rw := make([]int, 0, len(ret))
	for _, it := range ret {
		rw = append(rw, rProject(it).W)
	}
	w.Write(J{"ev": "rcpt", "gotype": gotype, "pre": pre, "panic": false,
		"post": J{"to": get("To"), "cc": get("CC"), "bto": get("Bto"), "bcc": get("BCC"), "aud": get("Audience")}, "ret": rw})
}

func rTotal(v rValue) int { return len(v.To) + len(v.CC) + len(v.Bto) + len(v.BCC) + len(v.Aud) }

func init() {
	// vh c10-replay transitions.ndjson trace.ndjson
	register("c10-replay", func(args []string) error {
		w, err := newNDWriter(args[1])
		if err != nil {
			return err
		}
		n := 0
		err = readNDJSON(args[0], func(raw []byte) error {
			var cs struct {
				Pre rValue `json:"pre"`
			}
			if err := json.Unmarshal(raw, &cs); err != nil {
				return err
			}
			n++
			for _, gt := range rGoTypesFor(cs.Pre.Class, n, rTotal(cs.Pre) <= 1) {
				rRun(w, cs.Pre, gt)
			}
			return nil
		})
		if err != nil {
			return err
		}
		return w.Close()
	})
	// vh c10-drive <n> <maxPerList> <whos> trace.ndjson
	register("c10-drive", func(args []string) error {
		n, maxl, whos := atoi(args[0]), atoi(args[1]), atoi(args[2])
		w, err := newNDWriter(args[3])
		if err != nil {
			return err
		}
		rng := rand.New(rand.NewSource(seed()))
		forms := []string{"iri", "https", "upper", "slash", "pathcase", "actor", "object"}
		ent := func(nilOK bool) rEntry {
			switch r := rng.Intn(12); {
			case r == 0 && nilOK:
				return rEntry{0, "nil"}
			case r == 1:
				return rEntry{9, "iri"}
			}
			return rEntry{1 + rng.Intn(whos), forms[rng.Intn(len(forms))]}
		}
		classes := []string{"plain", "activity", "block", "intransitive", "question"}
		for i := 0; i < n; i++ {
			cl := classes[rng.Intn(len(classes))]
			lst := func() []rEntry {
				l := make([]rEntry, rng.Intn(maxl+1))
				for j := range l {
					l[j] = ent(cl != "block")
				}
				return l
			}
			v := rValue{Class: cl, Actor: rEntry{0, "nil"}, Object: rEntry{0, "nil"}, To: lst(), CC: lst(), Bto: lst(), BCC: lst(), Aud: lst()}
			if cl == "intransitive" || cl == "question" {
				v.Actor = ent(true)
				if v.Actor.W == 9 {
					v.Actor = rEntry{1, "actor"}
				}
			}
			if cl == "block" {
				v.Object = ent(true)
			}
			for _, gt := range rGoTypesFor(cl, i, false) {
				rRun(w, v, gt)
			}
		}
		return w.Close()
	})
	// vh c10-one event.json trace.ndjson
	register("c10-one", func(args []string) error {
		raw, err := readFile(args[0])
		if err != nil {
			return err
		}
		var ev struct {
			Gotype string `json:"gotype"`
			Pre    rValue `json:"pre"`
		}
		if err := json.Unmarshal(raw, &ev); err != nil {
			return err
		}
		w, err := newNDWriter(args[1])
		if err != nil {
			return err
		}
		rRun(w, ev.Pre, ev.Gotype)
		return w.Close()
	})
	_ = fmt.Sprint
}
