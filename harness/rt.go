package main

// C01 / C03: encode->decode round trips of abstract values through the real codecs.
// vh rt <json|gob> cases.ndjson trace.ndjson   : replay TLC cases
// vh rt-drive <json|gob> <n> <depth> trace.ndjson : random deep values
// Events for JsonRTTrace.tla: {ev:"rt", codec, via, lab, in, out, err}

import (
	"encoding/json"
	"fmt"
	"reflect"
	"strings"

	ap "github.com/go-ap/activitypub"
)

type rtCase struct {
	Lab J `json:"lab"`
	V   J `json:"v"`
}

func safely(f func() error) (err error) {
	defer func() {
		if r := recover(); r != nil {
			err = fmt.Errorf("panic: %v", r)
		}
	}()
	return f()
}

// jsonPairs runs the value through every JSON encode/decode pair that applies to it
func jsonPairs(it ap.Item, emit func(via string, out ap.Item, raw []byte, err error)) {
	// package-level pair
	var data []byte
	var out ap.Item
	err := safely(func() error {
		var e error
		data, e = ap.MarshalJSON(it)
		if e != nil {
			return fmt.Errorf("encode: %w", e)
		}
		out, e = ap.UnmarshalJSON(data)
		if e != nil {
			return fmt.Errorf("decode: %w", e)
		}
		clobberDecode(len(data))
		return nil
	})
	emit("pkg", out, data, err)
	// per-type pair: T.MarshalJSON / (*T).UnmarshalJSON
	v := reflect.ValueOf(it)
	if it == nil {
		return
	}
	t := v.Type()
	if t.Kind() == reflect.Ptr {
		t = t.Elem()
	}
	if iri, isIRI := it.(ap.IRI); isIRI {
		// the IRI's own pair, fed the way encoding/json feeds it (escaping & < > as \u00XX)
		var back ap.IRI
		var raw []byte
		err = safely(func() error {
			var e error
			if raw, e = json.Marshal(string(iri)); e != nil {
				return e
			}
			return back.UnmarshalJSON(raw)
		})
		emit("type", back, raw, err)
		return
	}
	if t.Kind() != reflect.Struct {
		return
	}
	m, ok := it.(json.Marshaler)
	if !ok {
		return
	}
	var data2 []byte
	fresh := reflect.New(t)
	err = safely(func() error {
		var e error
		data2, e = m.MarshalJSON()
		if e != nil {
			return fmt.Errorf("encode: %w", e)
		}
		um, ok := fresh.Interface().(json.Unmarshaler)
		if !ok {
			return fmt.Errorf("%s has no UnmarshalJSON", t.Name())
		}
		if e = um.UnmarshalJSON(data2); e != nil {
			return fmt.Errorf("decode: %w", e)
		}
		return nil
	})
	emit("type", fresh.Interface().(ap.Item), data2, err)
}

// clobberDecode decodes an unrelated document of at least n bytes: a decoded value must not share memory with
// the decoder's buffers, so whatever is decoded later must not change it
func clobberDecode(n int) {
	pad := strings.Repeat("Z", n+64)
	doc := `{"id":"https://clobber.example/` + pad + `","type":"Note","name":"` + pad + `","summary":"` + pad + `","content":"` + pad +
		`","preferredUsername":"` + pad + `","source":{"content":"` + pad + `","mediaType":"text/plain"},"nameMap":{"en":"` + pad + `"}}`
	_, _ = ap.UnmarshalJSON([]byte(doc))
	_, _ = ap.UnmarshalJSON([]byte(`{"type":"Person","id":"https://clobber.example/p","preferredUsername":"` + pad + `"}`))
}

func gobPairs(it ap.Item, emit func(via string, out ap.Item, raw []byte, err error)) {
	var data []byte
	var out ap.Item
	err := safely(func() error {
		var e error
		data, e = ap.GobEncode(it)
		if e != nil {
			return fmt.Errorf("encode: %w", e)
		}
		out, e = ap.GobDecode(data)
		if e != nil {
			return fmt.Errorf("decode: %w", e)
		}
		return nil
	})
	emit("pkg", out, data, err)
	if it == nil {
		return
	}
	v := reflect.ValueOf(it)
	t := v.Type()
	if t.Kind() == reflect.Ptr {
		t = t.Elem()
	}
	if t.Kind() != reflect.Struct {
		return
	}
	type gobber interface{ GobEncode() ([]byte, error) }
	type ungobber interface{ GobDecode([]byte) error }
	type binm interface{ MarshalBinary() ([]byte, error) }
	type binu interface{ UnmarshalBinary([]byte) error }
	if g, ok := it.(gobber); ok {
		fresh := reflect.New(t)
		var d []byte
		err := safely(func() error {
			var e error
			d, e = g.GobEncode()
			if e != nil {
				return fmt.Errorf("encode: %w", e)
			}
			u, ok := fresh.Interface().(ungobber)
			if !ok {
				return fmt.Errorf("%s has no GobDecode", t.Name())
			}
			if e = u.GobDecode(d); e != nil {
				return fmt.Errorf("decode: %w", e)
			}
			return nil
		})
		emit("type", fresh.Interface().(ap.Item), d, err)
	}
	if g, ok := it.(binm); ok {
		fresh := reflect.New(t)
		var d []byte
		err := safely(func() error {
			var e error
			d, e = g.MarshalBinary()
			if e != nil {
				return fmt.Errorf("encode: %w", e)
			}
			u, ok := fresh.Interface().(binu)
			if !ok {
				return fmt.Errorf("%s has no UnmarshalBinary", t.Name())
			}
			if e = u.UnmarshalBinary(d); e != nil {
				return fmt.Errorf("decode: %w", e)
			}
			return nil
		})
		emit("binary", fresh.Interface().(ap.Item), d, err)
	}
}

func rtRun(w *ndWriter, codec string, c rtCase, n int) {
	// alternate pointer / value form of the top-level value: the form is not part of its identity
	in := c.V
	if in["k"] == "obj" && n%3 == 2 {
		cp := J{}
		for k, v := range in {
			cp[k] = v
		}
		cp["ptr"] = false
		in = cp
	}
	it := buildItem(in)
	emit := func(via string, out ap.Item, raw []byte, err error) {
		ev := J{"ev": "rt", "codec": codec, "via": via, "lab": c.Lab, "in": c.V, "err": ""}
		if err != nil {
			ev["err"] = err.Error()
			ev["out"] = J{"k": "nil"}
		} else {
			ev["out"] = projectItem(out)
		}
		if codec == "json" {
			ev["raw"] = string(raw)
		}
		w.Write(ev)
	}
	if codec == "json" {
		jsonPairs(it, emit)
	} else {
		gobPairs(it, emit)
	}
}

func init() {
	register("rt", func(args []string) error {
		w, err := newNDWriter(args[2])
		if err != nil {
			return err
		}
		n := 0
		err = readNDJSON(args[1], func(raw []byte) error {
			var c rtCase
			if err := json.Unmarshal(raw, &c); err != nil {
				return err
			}
			n++
			rtRun(w, args[0], c, n)
			return nil
		})
		if err != nil {
			return err
		}
		return w.Close()
	})
	register("vocab", func(args []string) error {
		b, _ := json.Marshal(vocabTable())
		fmt.Println(string(b))
		return nil
	})
}
