package main

// C08 static leg: parses the library with go/parser + go/types (gc/amd64 sizes), finds every
// pointer-reinterpreting conversion (*T)(unsafe.Pointer(x)) with the static type of x, and emits the
// struct layouts and the sites as facts for Views.tla.

import (
	"encoding/json"
	"fmt"
	"go/ast"
	"go/importer"
	"go/parser"
	"go/token"
	"go/types"
	"os"
	"path/filepath"
	"sort"
	"strings"
)

func init() {
	// vh layout <repo dir> facts.json
	register("layout", func(args []string) error {
		dir := args[0]
		fset := token.NewFileSet()
		pkgs, err := parser.ParseDir(fset, dir, func(fi os.FileInfo) bool { return !strings.HasSuffix(fi.Name(), "_test.go") }, 0)
		if err != nil {
			return err
		}
		pkg, ok := pkgs["activitypub"]
		if !ok {
			return fmt.Errorf("package activitypub not found in %s", dir)
		}
		var files []*ast.File
		var names []string
		for n := range pkg.Files {
			names = append(names, n)
		}
		sort.Strings(names)
		for _, n := range names {
			files = append(files, pkg.Files[n])
		}
		old, _ := os.Getwd()
		os.Chdir(dir) // the source importer resolves module dependencies relative to the package directory
		defer os.Chdir(old)
		conf := types.Config{Importer: importer.ForCompiler(fset, "source", nil), Sizes: types.SizesFor("gc", "amd64"), Error: func(error) {}}
		info := &types.Info{Types: map[ast.Expr]types.TypeAndValue{}, Implicits: map[ast.Node]types.Object{}, Uses: map[*ast.Ident]types.Object{}, Defs: map[*ast.Ident]types.Object{}}
		tpkg, _ := conf.Check("github.com/go-ap/activitypub", fset, files, info)
		if tpkg == nil {
			return fmt.Errorf("type check failed")
		}
		sizes := types.SizesFor("gc", "amd64")
		layouts := J{}
		var layoutOf func(name string) bool
		layoutOf = func(name string) bool {
			if _, done := layouts[name]; done {
				return true
			}
			obj := tpkg.Scope().Lookup(name)
			if obj == nil {
				return false
			}
			st, ok := obj.Type().Underlying().(*types.Struct)
			if !ok {
				return false
			}
			var fields []*types.Var
			for i := 0; i < st.NumFields(); i++ {
				fields = append(fields, st.Field(i))
			}
			offs := sizes.Offsetsof(fields)
			fl := []J{}
			for i, f := range fields {
				ts := types.TypeString(f.Type(), func(p *types.Package) string { return "" })
				// distinct named interface types with the same method set have the same memory layout, but NOT the same itab: an
				// interface value written through a view whose field has the other named type fails `x.(T)`, `==` and type switches
				// when read through the original. The declared (named) type is compared.
				fl = append(fl, J{"name": f.Name(), "type": ts,
					"off": offs[i], "size": sizes.Sizeof(f.Type())})
			}
			layouts[name] = J{"size": sizes.Sizeof(obj.Type()), "fields": fl}
			return true
		}
		sites := []J{}
		for _, f := range files {
			ast.Inspect(f, func(n ast.Node) bool {
				call, ok := n.(*ast.CallExpr)
				if !ok || len(call.Args) != 1 {
					return true
				}
				// (*T)(unsafe.Pointer(x))
				par, ok := call.Fun.(*ast.ParenExpr)
				if !ok {
					return true
				}
				star, ok := par.X.(*ast.StarExpr)
				if !ok {
					return true
				}
				inner, ok := call.Args[0].(*ast.CallExpr)
				if !ok || len(inner.Args) != 1 {
					return true
				}
				sel, ok := inner.Fun.(*ast.SelectorExpr)
				if !ok || sel.Sel.Name != "Pointer" {
					return true
				}
				if id, ok := sel.X.(*ast.Ident); !ok || id.Name != "unsafe" {
					return true
				}
				toT := info.TypeOf(star.X)
				fromT := info.TypeOf(inner.Args[0])
				toName, fromName := "?", "?"
				if toT != nil {
					toName = types.TypeString(toT, func(p *types.Package) string { return "" })
				}
				if fromT != nil {
					if p, ok := fromT.(*types.Pointer); ok {
						fromName = types.TypeString(p.Elem(), func(p *types.Package) string { return "" })
					} else {
						fromName = "nonpointer:" + fromT.String()
					}
				}
				pos := fset.Position(call.Pos())
				_, addrOf := inner.Args[0].(*ast.UnaryExpr)
				sites = append(sites, J{"file": filepath.Base(pos.Filename), "line": pos.Line, "from": fromName, "to": toName, "copy": addrOf})
				layoutOf(toName)
				layoutOf(fromName)
				return true
			})
		}
		for _, n := range goTypeNames {
			layoutOf(n)
		}
		vt := vocabTable()
		vocab := []J{}
		for _, n := range goTypeNames {
			vocab = append(vocab, J{"g": n, "rows": vt[n]})
		}
		b, _ := json.Marshal(J{"layouts": layouts, "sites": sites, "vocab": vocab})
		return writeFile(args[1], b)
	})
}
