package main

// C19: NaturalLanguageValues driven through Set / Append / Add / Get / Count / First, and
// Equals on pairs of lists.  Output is a trace for NatLangTrace.tla.

import (
	"encoding/json"
	"fmt"
	"math/rand"

	ap "github.com/go-ap/activitypub"
)

type nlEntry struct {
	R string `json:"r"`
	T string `json:"t"`
}

type c19op struct {
	O string `json:"o"`
	R string `json:"r,omitempty"`
	T string `json:"t,omitempty"`
}

func nlvProject(n ap.NaturalLanguageValues) []nlEntry {
	out := make([]nlEntry, 0, len(n))
	for _, v := range n {
		out = append(out, nlEntry{R: string(v.Ref), T: string(v.Value)})
	}
	return out
}

// interned texts: equal texts share ONE backing array (as happens when entries are filled from a common table);
// an operation that writes into an entry's old buffer then shows up in the other entries and in later calls
var internTab = map[string]ap.Content{}

func intern(t string) ap.Content {
	c, ok := internTab[t]
	if !ok || string(c) != t {
		c = ap.Content(append(make([]byte, 0, len(t)+8), t...)) // spare capacity invites in-place reuse
		internTab[t] = c
	}
	return c
}

func nlvBuild(es []nlEntry) ap.NaturalLanguageValues {
	n := make(ap.NaturalLanguageValues, 0, len(es))
	for _, e := range es {
		n = append(n, ap.LangRefValue{Ref: ap.LangRef(e.R), Value: intern(e.T)})
	}
	return n
}

func c19apply(n *ap.NaturalLanguageValues, op c19op) (res J) {
	defer func() {
		if r := recover(); r != nil {
			res = J{"k": "panic", "msg": fmt.Sprint(r)}
		}
	}()
	switch op.O {
	case "Get":
		c := n.Get(ap.LangRef(op.R))
		if c == nil {
			return J{"k": "nil"}
		}
		return J{"k": "text", "t": string(c)}
	case "Set":
		if err := n.Set(ap.LangRef(op.R), intern(op.T)); err != nil {
			return J{"k": "err"}
		}
		return J{"k": "ok"}
	case "Append":
		if err := n.Append(ap.LangRef(op.R), intern(op.T)); err != nil {
			return J{"k": "err"}
		}
		return J{"k": "ok"}
	case "Add":
		n.Add(ap.LangRefValue{Ref: ap.LangRef(op.R), Value: intern(op.T)})
		return J{"k": "ok"}
	case "Count":
		return J{"k": "n", "n": int(n.Count())}
	case "First":
		if len(*n) == 0 {
			f := n.First()
			if f.Ref == "" && len(f.Value) == 0 {
				return J{"k": "zero"}
			}
			return J{"k": "entry", "r": string(f.Ref), "t": string(f.Value)}
		}
		f := n.First()
		return J{"k": "entry", "r": string(f.Ref), "t": string(f.Value)}
	}
	return J{"k": "unknown-op"}
}

func c19emit(w *ndWriter, n *ap.NaturalLanguageValues, op c19op) {
	res := c19apply(n, op)
	w.Write(J{"ev": "op", "op": op, "post": nlvProject(*n), "res": res})
}

func c19eq(w *ndWriter, a, b []nlEntry) {
	var res interface{}
	func() {
		defer func() {
			if r := recover(); r != nil {
				res = "panic"
			}
		}()
		res = nlvBuild(a).Equals(nlvBuild(b))
	}()
	w.Write(J{"ev": "eq", "a": a, "b": b, "res": res})
}

func init() {
	// vh c19-replay cases.ndjson eqcases.ndjson trace.ndjson
	register("c19-replay", func(args []string) error {
		w, err := newNDWriter(args[2])
		if err != nil {
			return err
		}
		err = readNDJSON(args[0], func(raw []byte) error {
			var cs struct {
				Pre []nlEntry `json:"pre"`
				Op  c19op     `json:"op"`
			}
			if err := json.Unmarshal(raw, &cs); err != nil {
				return err
			}
			n := ap.NaturalLanguageValues{}
			w.Write(J{"ev": "reset"})
			for i, e := range cs.Pre {
				// canonical path: alternate the two appending entry points
				o := "Append"
				if i%2 == 1 {
					o = "Add"
				}
				c19emit(w, &n, c19op{O: o, R: e.R, T: e.T})
			}
			c19emit(w, &n, cs.Op)
			return nil
		})
		if err != nil {
			return err
		}
		err = readNDJSON(args[1], func(raw []byte) error {
			var cs struct {
				A []nlEntry `json:"a"`
				B []nlEntry `json:"b"`
			}
			if err := json.Unmarshal(raw, &cs); err != nil {
				return err
			}
			c19eq(w, cs.A, cs.B)
			return nil
		})
		if err != nil {
			return err
		}
		return w.Close()
	})
	// vh c19-ops histories.ndjson trace.ndjson  (each line {"ops":[...]} or {"a":..,"b":..})
	register("c19-ops", func(args []string) error {
		w, err := newNDWriter(args[1])
		if err != nil {
			return err
		}
		err = readNDJSON(args[0], func(raw []byte) error {
			var cs struct {
				Ops []c19op   `json:"ops"`
				A   []nlEntry `json:"a"`
				B   []nlEntry `json:"b"`
				Eq  bool      `json:"eq"`
			}
			if err := json.Unmarshal(raw, &cs); err != nil {
				return err
			}
			if cs.Eq {
				c19eq(w, cs.A, cs.B)
				return nil
			}
			n := ap.NaturalLanguageValues{}
			w.Write(J{"ev": "reset"})
			for _, op := range cs.Ops {
				c19emit(w, &n, op)
			}
			return nil
		})
		if err != nil {
			return err
		}
		return w.Close()
	})
	// vh c19-drive <traces> <len> trace.ndjson
	register("c19-drive", func(args []string) error {
		nTraces, length := atoi(args[0]), atoi(args[1])
		w, err := newNDWriter(args[2])
		if err != nil {
			return err
		}
		rng := rand.New(rand.NewSource(seed()))
		tags := []string{"-", "en", "fr", "de", "ro", "en-US"}
		texts := []string{"a", "b", "c", "hello world", "<p>x</p>"}
		for t := 0; t < nTraces; t++ {
			n := ap.NaturalLanguageValues{}
			w.Write(J{"ev": "reset"})
			for s := 0; s < length; s++ {
				r, tx := tags[rng.Intn(len(tags))], texts[rng.Intn(len(texts))]
				var op c19op
				switch k := rng.Intn(10); {
				case k < 3:
					op = c19op{O: "Set", R: r, T: tx}
				case k < 5:
					op = c19op{O: "Get", R: r}
				case k < 6:
					op = c19op{O: "Append", R: r, T: tx}
				case k < 7:
					op = c19op{O: "Add", R: r, T: tx}
				case k < 8:
					op = c19op{O: "Count"}
				default:
					op = c19op{O: "First"}
				}
				c19emit(w, &n, op)
			}
			// equality of tag-distinct lists: permutations and single-entry changes
			m := 1 + rng.Intn(len(tags))
			perm := rng.Perm(len(tags))[:m]
			a := make([]nlEntry, 0, m)
			for _, p := range perm {
				a = append(a, nlEntry{R: tags[p], T: texts[rng.Intn(len(texts))]})
			}
			b := make([]nlEntry, len(a))
			for i, p := range rng.Perm(len(a)) {
				b[i] = a[p]
			}
			c19eq(w, a, a)
			c19eq(w, a, b)
			c := append([]nlEntry{}, b...)
			c[rng.Intn(len(c))].T = "zz"
			c19eq(w, a, c)
			c19eq(w, c, a)
		}
		return w.Close()
	})
}
