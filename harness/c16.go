package main

// C16: FlattenProperties and the direct Flatten*Properties functions.  Events for FlattenTrace.tla.

import (
	"encoding/json"
	"math/rand"

	ap "github.com/go-ap/activitypub"
)

func c16Apply(via string, it ap.Item) {
	switch via {
	case "FlattenProperties":
		ap.FlattenProperties(it)
	case "direct":
		switch v := it.(type) {
		case *ap.Activity:
			ap.FlattenActivityProperties(v)
		case *ap.IntransitiveActivity:
			ap.FlattenIntransitiveActivityProperties(v)
		case *ap.Actor:
			ap.FlattenActorProperties(v)
		case *ap.Object:
			ap.FlattenObjectProperties(v)
		default:
			ap.FlattenProperties(it)
		}
	}
}

func c16Run(w *ndWriter, lab J, pre J) {
	for _, via := range []string{"FlattenProperties", "direct"} {
		it := buildItem(pre)
		ev := J{"ev": "flat", "via": via, "lab": lab, "pre": pre, "panic": false}
		if p := guard(func() { c16Apply(via, it) }); p != "" {
			ev["panic"], ev["msg"], ev["post"], ev["post2"] = true, p, J{"k": "nil"}, J{"k": "nil"}
			w.Write(ev)
			continue
		}
		ev["post"] = projectItem(it)
		if p := guard(func() { c16Apply(via, it) }); p != "" {
			ev["panic"], ev["msg"] = true, p
		}
		ev["post2"] = projectItem(it)
		w.Write(ev)
	}
}

func init() {
	register("c16-replay", func(args []string) error {
		w, err := newNDWriter(args[1])
		if err != nil {
			return err
		}
		err = readNDJSON(args[0], func(raw []byte) error {
			var c rtCase
			if err := json.Unmarshal(raw, &c); err != nil {
				return err
			}
			c16Run(w, c.Lab, c.V)
			return nil
		})
		if err != nil {
			return err
		}
		return w.Close()
	})
	// vh c16-drive <n> trace.ndjson : random values of the flattenable root types
	register("c16-drive", func(args []string) error {
		n := atoi(args[0])
		w, err := newNDWriter(args[1])
		if err != nil {
			return err
		}
		g := &randGen{rng: rand.New(rand.NewSource(seed()))}
		roots := []string{"Activity", "IntransitiveActivity", "Question", "Object", "Actor", "Place", "Tombstone"}
		generic := map[string]string{"Object": "Note", "Actor": "Person", "Activity": "Create", "IntransitiveActivity": "Arrive"}
		for i := 0; i < n; i++ {
			gt := roots[i%len(roots)]
			g.budget = 10
			v := g.object(gt, 2, false)
			if t, ok := v["p"].(J)["type"].(J); ok {
				if r, ok := generic[t["s"].(string)]; ok {
					t["s"] = r // generic names are outside the family lists FlattenProperties dispatches on
				}
			}
			c16Run(w, J{"fam": "random", "g": gt}, normJ(v))
		}
		return w.Close()
	})
}
