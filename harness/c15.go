package main

// C15: IRIf / Split / CollectionPaths.Split / OfActor / ValidCollectionIRI / CollectionPath.Of / .IRI
// on TLC-generated owners.  Results are parsed back into IRI presentations with net/url (not with
// the library) and judged by CollPathTrace.tla.

import (
	"encoding/json"
	"fmt"
	"net/url"
	"strings"

	ap "github.com/go-ap/activitypub"
)

// parsePres turns a concrete IRI into the presentation record of IRI.tla
func parsePres(s string) J {
	bad := J{"okp": false, "s": s}
	if s == "" {
		return bad
	}
	u, err := url.Parse(s)
	if err != nil || u.Scheme == "" || u.Host == "" {
		return bad
	}
	p := u.EscapedPath()
	ts := false
	segs := []string{}
	if p != "" {
		if strings.HasSuffix(p, "/") {
			ts = true
			p = p[:len(p)-1]
		}
		if p != "" {
			segs = strings.Split(strings.TrimPrefix(p, "/"), "/")
		}
	}
	ps := []J{}
	if u.RawQuery != "" {
		for _, kv := range strings.Split(u.RawQuery, "&") {
			k, v, _ := strings.Cut(kv, "=")
			ps = append(ps, J{"k": k, "v": v})
		}
	}
	return J{"okp": true, "s": s, "sch": u.Scheme, "host": u.Host, "path": J{"segs": segs, "ts": ts},
		"query": J{"raw": u.RawQuery != "" || u.ForceQuery, "ps": ps}, "frag": u.Fragment}
}

func guard(f func()) (panicked string) {
	defer func() {
		if r := recover(); r != nil {
			panicked = fmt.Sprint(r)
		}
	}()
	f()
	return ""
}

func c15JoinEvents(w *ndWriter, o json.RawMessage, os string, c string, depth int) {
	var built ap.IRI
	var valid bool
	if p := guard(func() {
		built = ap.IRIf(ap.IRI(os), ap.CollectionPath(c))
		valid = ap.ValidCollectionIRI(built)
	}); p != "" {
		w.Write(J{"ev": "join", "o": o, "c": c, "res": J{"okp": false, "s": "panic: " + p}, "valid": false})
		return
	}
	w.Write(J{"ev": "join", "o": o, "c": c, "res": parsePres(string(built)), "valid": valid, "os": os})
	bp := parsePres(string(built))
	// the three splitters on the built IRI
	type sp struct {
		fn string
		f  func() (ap.IRI, string, bool)
	}
	for _, s := range []sp{
		{"Split", func() (ap.IRI, string, bool) { o, n := ap.Split(built); return o, string(n), false }},
		{"CollectionPaths.Split", func() (ap.IRI, string, bool) {
			o, n := ap.ActivityPubCollections.Split(built)
			return o, string(n), false
		}},
		{"OfActor", func() (ap.IRI, string, bool) {
			o, err := ap.CollectionPath(c).OfActor(built)
			return o, c, err != nil
		}},
	} {
		var ow ap.IRI
		var name string
		var isErr bool
		if p := guard(func() { ow, name, isErr = s.f() }); p != "" {
			isErr = true
		}
		w.Write(J{"ev": "split", "fn": s.fn, "i": bp, "c": c, "owner": parsePres(string(ow)), "name": name, "err": isErr, "is": string(built)})
	}
	// the owner itself as a candidate collection IRI
	var ov bool
	guard(func() { ov = ap.ValidCollectionIRI(ap.IRI(os)) })
	w.Write(J{"ev": "valid", "i": parsePres(os), "res": ov, "is": os})
	// nested: the built IRI as an owner of a further collection
	if depth > 0 {
		for _, c2 := range []string{"outbox", "likes", "inbox"} {
			raw, _ := json.Marshal(bp)
			c15JoinEvents(w, raw, string(built), c2, depth-1)
		}
	}
}

// c15Typed gives the value the type name the case asks for (the generic names are vocabulary types too)
func c15Typed(it ap.Item, tn string) ap.Item {
	switch v := it.(type) {
	case *ap.Object:
		v.Type = ap.ActivityVocabularyType(tn)
	case *ap.Actor:
		v.Type = ap.ActivityVocabularyType(tn)
	}
	return it
}

func c15Value(kind string, id string, c string, explicit J) ap.Item {
	var exp ap.Item
	switch explicit["k"] {
	case "iri":
		exp = ap.IRI(explicit["s"].(string))
	case "object":
		exp = &ap.OrderedCollection{ID: ap.IRI(explicit["s"].(string)), Type: ap.OrderedCollectionType}
	case "nil-pointer":
		exp = (*ap.OrderedCollection)(nil)
	case "empty-iri":
		exp = ap.IRI("")
	}
	switch kind {
	case "iri":
		return ap.IRI(id)
	case "object":
		o := &ap.Object{ID: ap.IRI(id), Type: ap.NoteType}
		switch c {
		case "likes":
			o.Likes = exp
		case "shares":
			o.Shares = exp
		case "replies":
			o.Replies = exp
		}
		return o
	case "actor":
		a := &ap.Actor{ID: ap.IRI(id), Type: ap.PersonType}
		switch c {
		case "likes":
			a.Likes = exp
		case "shares":
			a.Shares = exp
		case "replies":
			a.Replies = exp
		case "inbox":
			a.Inbox = exp
		case "outbox":
			a.Outbox = exp
		case "followers":
			a.Followers = exp
		case "following":
			a.Following = exp
		case "liked":
			a.Liked = exp
		}
		return a
	}
	return nil
}

func init() {
	// vh c15-replay join.ndjson of.ndjson trace.ndjson
	register("c15-replay", func(args []string) error {
		w, err := newNDWriter(args[2])
		if err != nil {
			return err
		}
		err = readNDJSON(args[0], func(raw []byte) error {
			var cs struct {
				O  json.RawMessage `json:"o"`
				Os string          `json:"os"`
				C  string          `json:"c"`
			}
			if err := json.Unmarshal(raw, &cs); err != nil {
				return err
			}
			c15JoinEvents(w, cs.O, cs.Os, cs.C, 1)
			return nil
		})
		if err != nil {
			return err
		}
		err = readNDJSON(args[1], func(raw []byte) error {
			var cs struct {
				Kind     string          `json:"kind"`
				ID       json.RawMessage `json:"id"`
				IDs      string          `json:"ids"`
				C        string          `json:"c"`
				Explicit J               `json:"explicit"`
				Tn       string          `json:"tn"`
			}
			if err := json.Unmarshal(raw, &cs); err != nil {
				return err
			}
			for _, fn := range []string{"Of", "IRI"} {
				it := c15Typed(c15Value(cs.Kind, cs.IDs, cs.C, cs.Explicit), cs.Tn)
				var res string
				if p := guard(func() {
					if fn == "Of" {
						r := ap.CollectionPath(cs.C).Of(it)
						if r != nil {
							res = string(r.GetLink())
						}
					} else {
						res = string(ap.CollectionPath(cs.C).IRI(it))
					}
				}); p != "" {
					res = ""
				}
				exp := J{"k": cs.Explicit["k"]}
				if cs.Explicit["iri"] != nil {
					exp["iri"] = cs.Explicit["iri"]
				}
				if fn == "Of" {
					// AddTo on a fresh value of the same shape
					it2 := c15Typed(c15Value(cs.Kind, cs.IDs, cs.C, cs.Explicit), cs.Tn)
					var iri ap.IRI
					var status bool
					guard(func() { iri, status = ap.CollectionPath(cs.C).AddTo(it2) })
					after := ""
					guard(func() {
						if cs.Kind != "iri" {
							if r := ap.CollectionPath(cs.C).Of(it2); r != nil && (cs.Explicit["k"] != "none" || status) {
								after = string(r.GetLink())
							}
						}
					})
					w.Write(J{"ev": "addto", "kind": cs.Kind, "id": cs.ID, "c": cs.C, "explicit": exp, "res": parsePres(string(iri)), "status": status,
						"after": parsePres(after), "ids": cs.IDs})
				}
				w.Write(J{"ev": "of", "fn": fn, "kind": cs.Kind, "id": cs.ID, "c": cs.C, "explicit": exp, "res": parsePres(res),
					"ids": cs.IDs, "exps": fmt.Sprint(cs.Explicit["s"])})
			}
			return nil
		})
		if err != nil {
			return err
		}
		return w.Close()
	})
}
