#!/usr/bin/env python3
# Regenerates /verif/MANIFEST.json from the table below (single source of truth for the interface).
import json, os
VERIF = os.path.dirname(os.path.dirname(os.path.abspath(__file__)))
props = [json.loads(l) for l in open(os.path.join(VERIF, "properties.jsonl")) if l.strip()]

# id -> (technique, level text, level note, design ref)
def C(tech, text, note, ref):
    return (tech, text, note, ref)

TRUST = "Trusts TLC, the reflection-based projection (harness/absval.go, no library methods) and the Go toolchain; bounds as stated in the evidence rule."
CHECKS = {
 "C01": C("TLA+ value model (Vocab/Values/Cases/JsonRT.tla): TLC enumerates case families and computes the normal form; real "
          "MarshalJSON/UnmarshalJSON pairs replayed on them and on random deep values; JsonRTTrace.tla judges every event",
          "TLC model-checks the round-trip machine (normal forms idempotent, no term lost) on the bounded universe and is the oracle "
          "(NFItem) for every recorded round trip of the real codec: exhaustive for one- and two-property values and one level of "
          "nesting of every Go type, random beyond.", TRUST, "DESIGN.md §4 C01"),
 "C03": C("same model with the gob normal form GFItem; GobEncode/GobDecode, per-type and binary pairs replayed; JsonRTTrace.tla judges",
          "As C01 for the gob/binary codec with nanoseconds and zones preserved.", TRUST, "DESIGN.md §4 C03"),
 "C02": C("TLA+ Text.tla (alphabet of character classes, reference escaper, grammar and invertibility checked by TLC over Sigma^<=L); "
          "TLC enumerates the strings; every string-bearing position x both MarshalJSON paths executed and parsed with encoding/json; "
          "TextTrace.tla judges validity, duplicates, injected members and byte-exact strings",
          "Exhaustive over Sigma^<=2 (39 symbols incl. quotes, backslashes, controls, invalid UTF-8, JSON fragments) x 31 positions x 2 "
          "encoder entry points; length 3 on a rotation (thorough: all).  Term/kind correctness of every property is checked by C05.",
          TRUST, "DESIGN.md §4 C02"),
 "C04": C("TLA+ Hostile.tla: grammar of hostile documents (type x term x 35 JSON shapes x nesting, the same inside rich base documents, alternating 60-level chains over pairs of item-valued terms, lists of thousands of members) and the outcome alphabet of decode and "
          "follow-up calls (no transition to panic/hang), model-checked; TLC prints every cell's document; all decoding entry points driven in "
          "child processes under recover(), a watchdog and an allocation measurement; HostileTrace.tla judges outcomes and cost bounds",
          "Every cell of the grammar (incl. rich bases, chains and wide lists) plus byte-level damage (empty, all one-byte inputs, all prefixes of sample documents, gob truncations and "
          "seeded bit flips) at the JSON/text/gob entry points (73), with follow-ups on every returned value.",
          TRUST + " 'All byte strings' is approximated by the grammar plus bounded byte-level damage.", "DESIGN.md §4 C04"),
 "C05": C("TLA+ JsonCodec.tla: tagged JSON trees, Pres (the documents an independent writer may produce), Dec (what a document denotes, "
          "table-driven from Vocab.tla), pipeline machine document->decode->re-encode->decode with ReadsWhatItSays/Fixpoint/WriterOK model-checked; "
          "documents written by encoding/json and the 19 mock documents with mutations run through the real decoder/encoder; JsonCodecTrace.tla judges",
          "Every distinct presentation of the OneField/Nested1/Full case values; mocks and 4 structure-preserving mutations; decode compared "
          "with Dec(doc), second trip, byte fixpoint, and the written form against the term/kind rules.", TRUST, "DESIGN.md §4 C05"),
 "C06": C("TLA+ Text.tla pipeline machine store->encode->decode (RoundTrip/WireValid invariants); all strings of Sigma^<=3 through the real "
          "JSON and gob codecs in 5 text properties x 4 forms; TextTrace.tla judges bytes and tags",
          "Exhaustive over Sigma^<=2 for all property/form/codec combinations, Sigma^3 on content and a rotation of the rest.",
          TRUST, "DESIGN.md §4 C06"),
 "C07": C("TLA+ machine Dispatch.tla (channels x names x hook toggling, invariants OneGoType/HooksIrrelevant/NoWrongType) model-checked; "
          "the whole request space replayed on the registry, JSON and gob decoders with hooks unset and set; DispatchTrace.tla judges",
          "Exhaustive: every vocabulary/generic/empty/outsider name x 7 channels x 2 hook settings executed on the real code.",
          TRUST, "DESIGN.md §4 C07"),
 "C08": C("TLA+ Views.tla: SafeView rule evaluated by TLC on layout/site facts extracted from the current tree with go/types, struct terms "
          "against Vocab!Props; every To* and On* helper x struct type x form executed under the runtime pointer checker in child processes; growth leg Destructure.tla (callback helpers over lists) as observations",
          "All conversion sites found statically (48) and all 28x14x2 dynamic combinations: field-faithful reads, writes through pointer views, "
          "no view wider than its source, no checkptr abort.", TRUST + " Layouts are gc/amd64.", "DESIGN.md §4 C08"),
 "C09": C("TLA+ law module Equality.tla (laws chosen from the pair by the spec; consistency and non-vacuity model-checked); TLC generates "
          "pairs per law from the case families; real ItemsEqual replayed incl. random deep values; EqualityTrace.tla judges",
          "All case values against themselves (reflexivity), single-property identity mutations in both orders, id/type variants, "
          "nil-like x non-nil combinations, value/pointer forms rotated; random deep values beyond.", TRUST, "DESIGN.md §4 C09"),
 "C10": C("TLA+ state machine Recipients.tla model-checked (6 invariants from the property's clauses); TLC prints every transition, the "
          "harness performs it on every addressable Go type; RecipientsTrace.tla judges recorded events incl. random larger values; composition leg Delivery.tla (address -> strip -> encode -> deliver/re-deliver -> persist -> update; all interleavings model-checked, a must-fail configuration with the wrong call order) whose Recipients() steps on real histories are judged by DeliveryTrace.tla",
          "Exhaustive TLC check of the de-duplication design for all cuts of <=3 entries; every transition for <=2 entries over a "
          "14-entry pool replayed on the real Recipients() of the Go types of its class; random values beyond; the delivery protocol run on every third of those values under two network schedules.", TRUST, "DESIGN.md §4 C10"),
 "C11": C("TLA+ Clean.tla (recursive CleanV along the walked properties, Leaks, idempotence; model-checked on the generated trees); "
          "trees replayed on Clean() of every type offering it; CleanTrace.tla requires post = CleanV(pre), no leak, none in the JSON form",
          "All generated trees (13 root types x positions x subtree shapes, lists, depth-4 chain) and random trees of depth <=3/4.",
          TRUST, "DESIGN.md §4 C11"),
 "C12": C("TLA+ ReadOnly.tla: heap of cells x N goroutines x read-only operations as sequences of atomic steps, every interleaving explored "
          "by TLC (HeapFrozen, SameAsSequential); a write-then-restore variant is shown to violate the interleaving check but not the snapshot "
          "view; on the real code: deep-snapshot frame check incl. slice capacity for every (value, operation), and all operation pairs on shared "
          "values from concurrent goroutines under the Go race detector; ReadOnlyTrace.tla judges",
          "Exhaustive interleavings in the model only; on the real code every operation pair is covered and the race detector is the observer.",
          TRUST + " The race detector's shadow memory could in principle evict an access.", "DESIGN.md §4 C12"),
 "C13": C("TLA+ state machine (Collections.tla) model-checked by TLC; every model transition replayed on the six real containers and "
          "random histories recorded from them, all judged by the trace specification CollectionsTrace.tla",
          "Exhaustive TLC check of the ordered-set design for a pool of 4-5 ids; every (kind, contents, op) transition of the model is "
          "executed on the real code and every recorded event (plus long random histories) must be a step of the specification.",
          TRUST, "DESIGN.md §4 C13"),
 "C14": C("TLA+ relation IRI.tla (component-wise Equiv = equality of normal forms, equivalence laws checked by TLC, list machine); TLC "
          "generates the grid with class keys; all ordered pairs executed on IRI.Equals; IRITrace.tla re-judges disagreements and samples",
          "All ordered pairs x checkScheme of a 2400 (quick) / 16800 (thorough) IRI grid compared with the model's classes; non-URL strings "
          "for reflexivity/symmetry; IRI-list membership against the model.", TRUST, "DESIGN.md §4 C14"),
 "C15": C("TLA+ machine CollPath.tla (join/split walk with round-trip invariants) over IRI.tla; every owner x name replayed through "
          "IRIf/Split/OfActor/ValidCollectionIRI/Of/IRI; CollPathTrace.tla judges results parsed with net/url",
          "Exhaustive over the generated owner space (516 owners x 8 names, nested once) and the helper cases (holders typed, generic-named and untyped; explicit collections as IRI, object, nil pointer, empty IRI).", TRUST, "DESIGN.md §4 C15"),
 "C16": C("TLA+ Flatten.tla (FlatV, relation FlattenWhy, IrisOf; SpecSatisfiesRelation/NoInvention/Idempotent model-checked); cases "
          "replayed through FlattenProperties and the direct functions twice; FlattenTrace.tla judges",
          "Roots (typed, generic-named, untyped, id-less) x flattened positions x 12 child shapes, addressing lists with duplicates and shared addressees, frame cases; random depth-2 values.",
          TRUST, "DESIGN.md §4 C16"),
 "C17": C("TLA+ Order.tla: strict-weak-order laws as ASSUMEs over all triples, sorting machine with termination; all pairs x Go types and "
          "all short lists replayed on ItemOrderTimestamp / sort.Slice; OrderTrace.tla judges",
          "Whole abstract space (17x17 pairs, lists <=4) on every object Go type in value and pointer form with zone presentations.",
          TRUST, "DESIGN.md §4 C17"),
 "C20": C("TLA+ matrix NilMatrix.tla (helpers x nil kinds x positions with the allowed outcome classes, totality model-checked); every "
          "cell executed on the real helper under recover(); NilMatrixTrace.tla judges outcome and callback-argument classes",
          "Exhaustive: the whole matrix (81 top-level helpers incl. the Equals methods, Append growth and the page constructors + 18 container helpers x 18 nil kinds incl. *IRI, *IRIs, *ItemCollection x positions incl. every item-typed property of every struct).", TRUST, "DESIGN.md §4 C20"),
 "C18": C("TLA+ Copy.tla: merge relation MergeOK/MustRefuse over property maps, lattice model (unset/A/B per term) explored by TLC; "
          "(to, from) pairs replayed on CopyItemProperties; CopyTrace.tla judges guards, frame, no-loss, merged-wins",
          "Every own property x set/unset on both sides per supported type, ordered property pairs on 3 types, guard cases, untyped targets, empty-but-present source properties, one identity in two shapes; random subsets.",
          TRUST, "DESIGN.md §4 C18"),
 "C19": C("TLA+ state machine (NatLang.tla, Set specified as a relation by its post-condition) model-checked by TLC; every "
          "(contents, op) pair and every pair of tag-distinct lists replayed on the real NaturalLanguageValues, random "
          "histories recorded from it, all judged by NatLangTrace.tla",
          "Exhaustive TLC check of the ordered-multimap design for <=3 entries over 3 tags; every model transition executed on "
          "the real code and judged by the specification; random histories of 100 calls beyond the bound.",
          "Trusts TLC and the direct field projection of LangRefValue entries; texts are non-empty.", "DESIGN.md §4 C19"),
}
NOT_YET = "check not built yet in this round (planned in DESIGN.md §4); not claimed until it runs"

m = dict(
    version=1,
    setup_cmd="cd /verif/harness && GOFLAGS=-mod=mod GOPROXY=off GOSUMDB=off GOTOOLCHAIN=local go build -o /dev/null . && cd /verif && python3 -c 'import sys; sys.path.insert(0,\"lib\"); import vlib'",
    hooks=dict(guard="verif", enable="go build -tags verif (no hook is installed: the abstract state is read through exported fields)",
               baseline_off_cmd="cd /repo && go test -vet=off -count=1 ./... && cd /repo/tests && go test -vet=off -count=1 ./...",
               source_commits=[], add_only=True),
    engines=[dict(name="tlc", path="/usr/local/bin/tlc", serves_properties=sorted(CHECKS), kind_free_text="TLC 1.8.0 explicit-state model checker; specs under /verif/spec"),
             dict(name="vh", path="/verif/harness", serves_properties=sorted(CHECKS), kind_free_text="Go conformance harness (replay of TLC cases, trace recording) built against /repo")],
    checks=[], notes="See DESIGN.md. ./check exits 2 on infrastructure failures (never a verdict).",
    not_applicable=[])
for p in props:
    pid = p["id"]
    if pid in CHECKS:
        tech, text, note, ref = CHECKS[pid]
        m["checks"].append(dict(property_id=pid, quick_cmd="./check %s --tier quick" % pid,
                                thorough_cmd="./check %s --tier thorough" % pid,
                                evidence_file="/verif/evidence/%s.json" % pid,
                                replay_cmd_template="./check %s --replay {path}" % pid, engine="tlc",
                                level_claimed=dict(category="model_checking", text=text, design_ref=ref),
                                level_note=note, technique=tech))
    else:
        m["not_applicable"].append(dict(property_id=pid, reason=NOT_YET))
json.dump(m, open(os.path.join(VERIF, "MANIFEST.json"), "w"), indent=1)
print("MANIFEST.json: %d checks, %d not claimed" % (len(m["checks"]), len(m["not_applicable"])))
