#!/usr/bin/env python3
# Regenerates /verif/MANIFEST.json from the table below (single source of truth for the interface).
import json, os
VERIF = os.path.dirname(os.path.dirname(os.path.abspath(__file__)))
props = [json.loads(l) for l in open(os.path.join(VERIF, "properties.jsonl")) if l.strip()]

# id -> (technique, level text, level note, design ref)
CHECKS = {
 "C13": ("TLA+ state machine (Collections.tla) model-checked by TLC; every model transition replayed on the six real "
         "containers and random histories recorded from them, all judged by the trace specification CollectionsTrace.tla",
         "Exhaustive TLC check of the ordered-set design for a pool of 4-5 ids; every (kind, contents, op) transition of the "
         "model is executed on the real code and every recorded event (plus long random histories) must be a step of the "
         "specification. Bounded-exhaustive for short histories, random beyond.",
         "Trusts TLC, the reflection-based projection of container contents, and that identity = id for pool items.",
         "DESIGN.md §4 C13"),
 "C19": ("TLA+ state machine (NatLang.tla, Set specified as a relation by its post-condition) model-checked by TLC; every "
         "(contents, op) pair and every pair of tag-distinct lists replayed on the real NaturalLanguageValues, random "
         "histories recorded from it, all judged by NatLangTrace.tla",
         "Exhaustive TLC check of the ordered-multimap design for <=3 entries over 3 tags; every model transition executed on "
         "the real code and judged by the specification; random histories of 100 calls beyond the bound.",
         "Trusts TLC and the direct field projection of LangRefValue entries; texts are non-empty.",
         "DESIGN.md §4 C19"),
}
NOT_YET = "check not built yet in this round (planned in DESIGN.md §4); not claimed until it runs"

m = dict(
    version=1,
    setup_cmd="cd /verif/harness && GOFLAGS=-mod=mod GOPROXY=off GOSUMDB=off GOTOOLCHAIN=local go build -o /dev/null . && cd /verif && python3 -c 'import sys; sys.path.insert(0,\"lib\"); import vlib'",
    hooks=dict(guard="verif", enable="go build -tags verif (no hook is installed: the abstract state is read through exported fields)",
               baseline_off_cmd="cd /repo && go test -vet=off -count=1 ./... && cd /repo/tests && go test -vet=off -count=1 ./...",
               source_commits=[], add_only=True),
    engines=[dict(name="tlc", path="/usr/local/bin/tlc", serves_properties=sorted(CHECKS), kind_free_text="TLC 1.8.0 explicit-state model checker; specs under /verif/spec"),
             dict(name="vh", path="/verif/harness", serves_properties=sorted(CHECKS), kind_free_text="Go conformance harness (replay of TLC cases, trace recording) built against /repo")],
    checks=[], notes="See DESIGN.md. ./check exits 2 on infrastructure failures (never a verdict).",
    not_applicable=[])
for p in props:
    pid = p["id"]
    if pid in CHECKS:
        tech, text, note, ref = CHECKS[pid]
        m["checks"].append(dict(property_id=pid, quick_cmd="./check %s --tier quick" % pid,
                                thorough_cmd="./check %s --tier thorough" % pid,
                                evidence_file="/verif/evidence/%s.json" % pid,
                                replay_cmd_template="./check %s --replay {path}" % pid, engine="tlc",
                                level_claimed=dict(category="model_checking", text=text, design_ref=ref),
                                level_note=note, technique=tech))
    else:
        m["not_applicable"].append(dict(property_id=pid, reason=NOT_YET))
json.dump(m, open(os.path.join(VERIF, "MANIFEST.json"), "w"), indent=1)
print("MANIFEST.json: %d checks, %d not claimed" % (len(m["checks"]), len(m["not_applicable"])))
