#!/bin/sh
# usage: benigntest.sh [check ids...] : runs the claimed quick checks (or the given ones) against each behaviour-preserving
# patch under seeded/benign (false-alarm probe); BENIGN="b1 c6" restricts the patches.  Do not edit /verif while it runs.
cd "$(dirname "$0")/.." && V=$(pwd)
[ -d /tmp/mutb ] || { git -C /repo worktree add -q --detach /tmp/mutb HEAD && cp /repo/go.sum /tmp/mutb/ 2>/dev/null; }   # scratch worktree, removed at the end
for d in seeded/benign/*.diff; do
  [ -n "$BENIGN" ] && ! echo " $BENIGN " | grep -q " $(basename $d .diff) " && continue
  n=$(basename $d .diff)
  (cd /tmp/mutb && git checkout -q -- . && git clean -fdq -e go.sum && git checkout -q --detach $(git -C /repo rev-parse HEAD) && git apply $V/$d) || { echo "$n APPLY-FAILED"; continue; }
  (cd /tmp/mutb && GOFLAGS=-mod=mod GOPROXY=off go build ./... ) || { echo "$n BUILD-FAILED"; continue; }
  mkdir -p .work/benign-$n
  out=$(VERIF_REPO=/tmp/mutb lib/runall.sh "$@" 2>&1)
  echo "$n: $(echo "$out" | grep -v 'rc=0' | tr '\n' ' ')"
  for id in $(echo "$out" | grep -v 'rc=0' | grep -o 'C[0-9][0-9]'); do cp .work/runall-$id.log .work/benign-$n/$id.log; done
done
cd /tmp/mutb && git checkout -q -- .
git -C /repo worktree remove --force /tmp/mutb
