# C10 -- recipient computation (Recipients.tla)
import json, shutil
import vlib
from props import delivcommon


def judge(run, trace_path, label):
    shutil.copy(trace_path, run.spec_path("c10_trace.ndjson"))
    r = run.tlc_eval("RecipientsTrace", "c10_trace", timeout=3000)
    out = r.json_lines()
    if not out:
        raise vlib.Infra("RecipientsTrace produced no verdict line:\n" + r.out[-2000:])
    v = out[-1]
    events = vlib.read_ndjson(trace_path)
    if v["consumed"] != len(events):
        raise vlib.Infra("trace not fully consumed: %s of %d" % (v["consumed"], len(events)))
    for b in v["bad"]:
        ev = events[b["l"] - 1]
        pre = ev["pre"]
        has_nil = any(e["w"] == 0 for k in ("to", "cc", "bto", "bcc", "aud") for e in pre[k])
        why = "+".join(b["why"])
        gt = ev["gotype"]
        if why == "panic":
            key = "rcpt:%s:panic:%s" % (gt, "nil-entry" if has_nil else "other")
        else:
            key = "rcpt:%s:%s" % (gt, why)
        run.observe(key, "%s.Recipients() on %s -> post=%s ret=%s %s (%s)" % (
            gt, json.dumps(pre), json.dumps(ev.get("post")), json.dumps(ev.get("ret")), ev.get("msg", ""), label), dict(event=ev))
    return len(events)


def gen(run, pool, maxtotal, out):
    r = run.tlc_eval("RecipientsGen", "c10_gen", consts={"Pool": "Pool <- " + pool, "MaxTotal": maxtotal}, timeout=3000)
    rows = r.json_lines()
    vlib.write_ndjson(out, rows)
    run.cov["states"] += r.distinct
    run.cov["transitions"] += len(rows)
    return len(rows)


def check(run):
    thorough = run.tier == "thorough"
    run.tlc_model("RecipientsModel", "c10_model", workers=8, timeout=1800)
    ncases = 0
    traces = []
    plan = [("PoolA", 2)] + ([("PoolB", 3), ("PoolC", 4)] if thorough else [])
    for i, (pool, mt) in enumerate(plan):
        p = run.path("cases%d.ndjson" % i)
        ncases += gen(run, pool, mt, p)
        t = run.path("g_trace%d.ndjson" % i)
        run.vh(["c10-replay", p, t])
        traces.append(t)
    nev = 0
    for t in traces:
        nev += judge(run, t, "replay of model transitions")
    nr = 60000 if thorough else 6000
    run.vh(["c10-drive", nr, 6, 5, run.path("v_trace.ndjson")])
    nev += judge(run, run.path("v_trace.ndjson"), "random values")
    for i, ev in enumerate(vlib.read_ndjson(traces[0])):
        if i % 9000 == 77:
            run.sample(ev)
    run.cov.update(evaluations=nev, distinct_nontrivial=ncases, exhaustive=True, traces_validated_against_impl=nev,
                   rule="G: every Recipients transition of the machine for all cuts of <=2 entries (14-entry pool: 2 identities x 6 "
                        "forms, public, nil) over the five lists x value class x actor/object choices%s, executed on the Go types of "
                        "the class (all 10 plain types when <=1 entry, rotating otherwise); V: %d random values with <=6 entries per "
                        "list over 5 identities; every event judged by RecipientsTrace.tla against Outcome()" % (
                            "; thorough adds <=3 entries over an 8-entry pool and <=4 over a 5-entry pool" if thorough else "", nr))
    delivcommon.run_delivery(run, run.path("cases0.ndjson"))
    run.assumptions += ["the audience field after the call is not compared (only: a blocked addressee is gone from it)",
                        "addressees carry ids; typed-nil entries belong to C20"]


def replay(run, path):
    d = json.load(open(path))
    with open(run.path("ev.json"), "w") as f:
        json.dump(d["case"]["event"], f)
    run.vh(["c10-one", run.path("ev.json"), run.path("r_trace.ndjson")])
    judge(run, run.path("r_trace.ndjson"), "replay")
