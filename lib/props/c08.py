# C08 -- typed views (Views.tla): static facts from go/types + dynamic execution under checkptr
import json, shutil
import vlib


def check(run):
    binary = run.build(checkptr=True)
    facts = run.spec_path("c08_facts.json")
    run.vh(["layout", vlib.REPO, facts], binary=binary, timeout=600)
    run.vh(["c08-dyn", run.spec_path("c08_dyn.ndjson")], binary=binary, timeout=900)
    if run.tier == "thorough":       # the same combinations under the race detector as well
        rb = run.build(race=True)
        run.vh(["c08-dyn", run.path("c08_dyn_race.ndjson")], binary=rb, timeout=900)
        a = vlib.read_ndjson(run.spec_path("c08_dyn.ndjson")) + vlib.read_ndjson(run.path("c08_dyn_race.ndjson"))
        vlib.write_ndjson(run.spec_path("c08_dyn.ndjson"), a)
    r = run.tlc_model("Views", "c08", timeout=900)
    out = r.json_lines()
    if not out:
        raise vlib.Infra("Views produced no verdict line:\n" + r.out[-3000:])
    v = out[-1]
    f = json.load(open(facts))
    dyn = vlib.read_ndjson(run.spec_path("c08_dyn.ndjson"))
    events = [dict(ev="site", s=s) for s in f["sites"]] + [dict(ev="vocab", **g) for g in f["vocab"]] + dyn
    if v["consumed"] != len(events):
        raise vlib.Infra("facts not fully consumed: %s of %d" % (v["consumed"], len(events)))
    if len(f["sites"]) < 10:
        raise vlib.Infra("the extractor found only %d conversion sites" % len(f["sites"]))
    for b in v["bad"]:
        ev = events[b["l"] - 1]
        if ev["ev"] == "site":
            s = ev["s"]
            key = "view:%s:%s->%s:%s" % (s["file"], s["from"], s["to"], "+".join(b["why"]))
            what = "%s:%d reinterprets *%s as *%s: %s" % (s["file"], s["line"], s["from"], s["to"], ",".join(b["why"]))
        elif ev["ev"] == "vocab":
            key = "view:vocab:%s" % "+".join(b["why"])
            what = "struct %s does not carry the vocabulary rows of Vocab.tla: %s" % (ev["g"], b["why"])
        elif b["why"] and b["why"][0].startswith("note:"):
            run.note("view:dyn:%s:%s:%s" % (ev["fn"], ev["from"], b["why"][0][5:]), "%s(%s %s): %s" % (ev["fn"], ev["form"], ev["from"],
                     "refused although %s's rows are a prefix of %s's in Vocab.tla" % (ev["fn"][2:], ev["from"]) if ev["outcome"] == "refused" else ev["outcome"]))
            continue
        else:
            key = "view:dyn:%s:%s->%s:%s" % (ev["fn"], ev["from"], ev.get("to") or "?", "+".join(b["why"]))
            what = "%s(%s %s) -> %s %s %s" % (ev["fn"], ev["form"], ev["from"], ev["outcome"], ev.get("bad", [])[:4], ev.get("msg", "")[:120].replace("\n", " "))
        run.observe(key, what, dict(event=ev))
    # growth leg (observations only): the callback helpers over lists, Destructure.tla
    run.tlc_model("DestructureModel", "destr_model", workers=8, timeout=600)
    run.tlc_eval("DestructureGen", "destr_gen", timeout=300)
    run.vh(["destr-run", run.spec_path("destr_cases.ndjson"), run.spec_path("destr_trace.ndjson")])
    dv = run.tlc_eval("DestructureTrace", "destr_trace", timeout=600).json_lines()[-1]
    dev = vlib.read_ndjson(run.spec_path("destr_trace.ndjson"))
    if dv["consumed"] != len(dev) or len(dev) < 1000:
        raise vlib.Infra("Destructure trace not fully consumed: %s of %d" % (dv["consumed"], len(dev)))
    for b in dv["bad"]:
        e = dev[b["l"] - 1]
        run.note("walk:%s:%s" % (e["h"], "+".join(b["why"])), "%s over %s (callback fails at call %s): calls=%s err=%s %s differs from Destructure.tla"
                 % (e["h"], json.dumps(e["item"])[:160], e["failAt"], e["calls"], e["err"], e["panic"][:80]))
    run.cov["destructure_walks_judged"] = len(dev)
    for s in f["sites"][::12]:
        run.sample(s)
    run.sample(dyn[0])
    run.cov.update(evaluations=len(events), distinct_nontrivial=len(f["sites"]) + len(dyn), exhaustive=True, traces_validated_against_impl=len(dyn),
                   rule="static: every (*T)(unsafe.Pointer(x)) site found by go/types in the current tree (%d) judged by SiteWhy, and the jsonld "
                        "terms/kinds of all 14 structs against Vocab!Props; dynamic: 14 To* and 14 On* helpers x 14 struct types x {pointer, value} executed in "
                        "child processes built with -d=checkptr%s: every field read through the view, every field written through a pointer view"
                        % (len(f["sites"]), " and -race" if run.tier == "thorough" else ""))
    run.assumptions += ["layouts are those of gc/amd64", "names of non-shared tail fields are not compared"]


def replay(run, path):
    check(run)
