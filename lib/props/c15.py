# C15 -- collection IRIs and their owners (CollPath.tla over IRI.tla)
import json, shutil
import vlib


def judge(run, trace_path, label):
    shutil.copy(trace_path, run.spec_path("c15_trace.ndjson"))
    r = run.tlc_eval("CollPathTrace", "c15_trace", timeout=1800)
    out = r.json_lines()
    if not out:
        raise vlib.Infra("CollPathTrace produced no verdict line:\n" + r.out[-2000:])
    v = out[-1]
    events = vlib.read_ndjson(trace_path)
    if v["consumed"] != len(events):
        raise vlib.Infra("trace not fully consumed: %s of %d" % (v["consumed"], len(events)))
    for b in v["bad"]:
        ev = events[b["l"] - 1]
        why = "+".join(b["why"])
        if ev["ev"] == "join":
            key, what = "collpath:IRIf:%s" % why, "IRIf(%r, %r) = %r" % (ev.get("os"), ev["c"], ev["res"].get("s"))
        elif ev["ev"] == "split":
            key, what = "collpath:%s:%s" % (ev["fn"], why), "%s(%r) = (%r, %r) err=%s" % (ev["fn"], ev.get("is"), ev["owner"].get("s"), ev["name"], ev["err"])
        elif ev["ev"] == "valid":
            key, what = "collpath:ValidCollectionIRI:%s" % why, "ValidCollectionIRI(%r) = %s" % (ev.get("is"), ev["res"])
        elif ev["ev"] == "addto":
            key = "collpath:AddTo:%s:%s" % (ev["kind"], why)
            what = "%s.AddTo(%s id=%r, explicit %s) = (%r, %s), property afterwards %r" % (ev["c"], ev["kind"], ev.get("ids"), ev["explicit"]["k"], ev["res"].get("s"), ev["status"], ev["after"].get("s"))
        else:
            key = "collpath:%s:%s:%s:%s" % (ev["fn"], ev["kind"], "actor-box" if ev["c"] in ("inbox", "outbox", "followers", "following", "liked") else "object-coll", why)
            what = "%s.%s(%s id=%r, explicit %s=%r) = %r" % (ev["c"], ev["fn"], ev["kind"], ev.get("ids"), ev["explicit"]["k"], ev.get("exps"), ev["res"].get("s"))
        if ev["ev"] == "addto":
            run.note(key, what)          # AddTo is specified in CollPathTrace.tla but is not part of C15's statement
            continue
        run.observe(key, what + " (" + label + ")", dict(event=ev))
    return len(events)


def check(run):
    run.tlc_model("CollPathModel", "c15_model", workers=4)
    run.tlc_eval("CollPathGen", "c15_gen", timeout=1800)
    j, o = run.spec_path("c15_join.ndjson"), run.spec_path("c15_of.ndjson")
    run.vh(["c15-replay", j, o, run.path("trace.ndjson")])
    n = judge(run, run.path("trace.ndjson"), "model cases")
    nj = sum(1 for _ in open(j)); no = sum(1 for _ in open(o))
    for i, ev in enumerate(vlib.read_ndjson(run.path("trace.ndjson"))):
        if i % 9000 == 3:
            run.sample(ev)
    run.cov.update(evaluations=n, distinct_nontrivial=nj + no, exhaustive=True, traces_validated_against_impl=n,
                   rule="G: every (owner presentation x collection name) of CollPathGen.tla (2 schemes x 3 hosts x paths of <=2 "
                        "segments incl. collection names and a percent-escape x trailing slash) through IRIf, Split, "
                        "CollectionPaths.Split, OfActor, ValidCollectionIRI, nested one level deeper; every (kind x id x name x "
                        "explicit none/IRI/embedded collection) through CollectionPath.Of and .IRI; results parsed with net/url and "
                        "judged by CollPathTrace.tla")
    run.assumptions += ["owners are absolute URLs without query or fragment", "owner segments that differ from a collection name only in letter case are outside the validity law"]


def replay(run, path):
    raise vlib.Infra("C15 is exhaustive and deterministic: re-run ./check C15 (the replay file names the failing call)")
