# C13 -- collections are insertion-ordered sets (Collections.tla)
import json, os
import vlib


def judge(run, trace_path, label):
    """CollectionsTrace judges a recorded trace; returns number of events consumed."""
    import shutil
    shutil.copy(trace_path, run.spec_path("c13_trace.ndjson"))
    r = run.tlc_eval("CollectionsTrace", "c13_trace", timeout=3600)
    out = r.json_lines()
    if not out:
        raise vlib.Infra("CollectionsTrace produced no verdict line:\n" + r.out[-2000:])
    v = out[-1]
    events = vlib.read_ndjson(trace_path)
    if v["consumed"] != len(events):
        raise vlib.Infra("trace not fully consumed: %s of %d" % (v["consumed"], len(events)))
    for b in v["bad"]:
        ev = events[b["l"] - 1]
        # reconstruct the history of this trace (back to the last reset) for the replay file
        i = b["l"] - 1
        while i >= 0 and events[i]["ev"] != "reset":
            i -= 1
        hist = events[i:b["l"]]
        key = "coll:%s:%s:%s" % (b["kind"], b["op"], "+".join(b["why"]))
        if b["op"] in ("SaveLoadJSON", "SaveLoadGob"):
            run.note(key, "persisting a %s and reading it back changed it (a codec matter: C01/C03)" % b["kind"])
            continue
        if b["op"] in ("First", "IRIs", "Normalize", "ItemsMatch") and set(b["why"]) <= {"reply"}:
            run.note(key, "reply of %s differs from Collections.tla" % b["op"])     # views of the list: specified, but not part of C13's statement
            continue
        run.observe(key, "%s step rejected by Collections spec (%s) in %s" % (b["op"], ",".join(b["why"]), label),
                    dict(history=hist, event=ev))
    return len(events)


def check(run):
    thorough = run.tier == "thorough"
    ids = "{1, 2, 3, 4, 5}" if thorough else "{1, 2, 3, 4}"
    # M: exhaustive check of the design
    run.tlc_model("Collections", "c13_model", workers=4, consts={"Ids": ids})
    # G: every transition of the machine replayed on the real containers
    g = run.tlc_eval("CollectionsGen", "c13_gen", consts={"Ids": ids}, timeout=3600)
    cases = run.spec_path("c13_cases.ndjson")
    ncases = sum(1 for _ in open(cases))
    run.vh(["c13-replay", cases, run.path("g_trace.ndjson")])
    n1 = judge(run, run.path("g_trace.ndjson"), "replay of model transitions")
    # V: long random histories recorded from the real code
    nt, ln, nids = (600, 200, 16) if thorough else (120, 120, 12)
    run.vh(["c13-drive", nt, ln, nids, run.path("v_trace.ndjson")])
    n2 = judge(run, run.path("v_trace.ndjson"), "random histories")
    with open(cases) as f:
        for i, l in enumerate(f):
            if i % 2500 == 7:
                run.sample(json.loads(l))
    run.cov.update(evaluations=n1 + n2, distinct_nontrivial=ncases, exhaustive=True,
                   traces_validated_against_impl=ncases + nt,
                   rule="G: every (kind, duplicate-free contents over Ids, op) transition of Collections.tla, distinct by "
                        "construction, non-trivial = all (each performs one real call after rebuilding the pre-state); "
                        "V: %d random histories of %d calls over %d ids on all six kinds, every event judged by "
                        "CollectionsTrace.tla" % (nt, ln, nids))
    run.assumptions += ["pool items have pairwise distinct ids, one shape per id (IRI/object/actor/activity)",
                        "Remove on IRIs is not demanded (its item-list view is a conversion)"]


def replay(run, path):
    d = json.load(open(path))
    hist = d["case"]["history"]
    # re-execute the recorded history on the real code and judge it again
    cases = []
    kind = hist[0]["kind"]
    w = run.path("replay_trace.ndjson")
    ops = [e["op"] for e in hist[1:]]
    vlib.write_ndjson(run.path("replay_ops.ndjson"), [dict(kind=kind, ops=ops)])
    run.vh(["c13-ops", run.path("replay_ops.ndjson"), w])
    judge(run, w, "replay")
