# C11 -- Clean() (Clean.tla)
import json, shutil
import vlib


def judge(run, trace_path, label):
    shutil.copy(trace_path, run.spec_path("c11_trace.ndjson"))
    r = run.tlc_eval("CleanTrace", "c11_trace", timeout=3000)
    out = r.json_lines()
    if not out:
        raise vlib.Infra("CleanTrace produced no verdict line:\n" + r.out[-3000:])
    v = out[-1]
    events = vlib.read_ndjson(trace_path)
    if v["consumed"] != len(events):
        raise vlib.Infra("trace not fully consumed: %s of %d" % (v["consumed"], len(events)))
    for b in v["bad"]:
        ev = events[b["l"] - 1]
        g = ev["pre"].get("g", ev["pre"].get("k"))
        for d in b["why"]:
            key = "clean:%s:%s:%s" % (g, d["t"], d["sym"])
            run.observe(key, "Clean() on %s: %s %s; case %s (%s) %s" % (g, d["t"], d["sym"], json.dumps(ev.get("lab")), label, ev.get("msg", "")[:100]),
                        dict(event=ev))
    return len(events)


def check(run):
    thorough = run.tier == "thorough"
    run.tlc_model("CleanGen", "c11_model", workers=8, timeout=900)     # also writes the cases
    cases = run.spec_path("c11_cases.ndjson")
    ncases = sum(1 for _ in open(cases))
    run.vh(["c11-replay", cases, run.path("g_trace.ndjson")])
    n = judge(run, run.path("g_trace.ndjson"), "model trees")
    nr, depth = (10000, 4) if thorough else (1300, 3)
    run.vh(["c11-drive", nr, depth, run.path("v_trace.ndjson")])
    n += judge(run, run.path("v_trace.ndjson"), "random trees")
    with open(cases) as f:
        for i, l in enumerate(f):
            if i % 160 == 3:
                run.sample(json.loads(l))
    run.cov.update(evaluations=n, distinct_nontrivial=ncases, exhaustive=True, traces_validated_against_impl=n,
                   rule="G: every root type implementing Clean() x 10 child positions (walked, off-walk, activity-only) x 6 subtree shapes "
                        "with bto/bcc at every node; lists on audience/tag/to/cc; by-value children; a depth-4 chain; V: %d random trees of "
                        "depth <=%d; each cleaned on the real code, projected and serialised; CleanTrace.tla requires post = CleanV(pre), no "
                        "leak along the walk and none in the JSON form" % (nr, depth))
    run.assumptions += ["objects embedded by value carry no bto/bcc in the generated trees (cleaning them is not demanded)",
                        "intransitive activities and questions are walked like objects (the statement names activities only)"]
    from props import lifecommon
    lifecommon.run_life(run, "clean", "clean")


def replay(run, path):
    d = json.load(open(path))
    ev = d["case"]["event"]
    vlib.write_ndjson(run.path("one.ndjson"), [dict(lab=ev.get("lab", {}), v=ev["pre"])])
    run.vh(["c11-replay", run.path("one.ndjson"), run.path("r_trace.ndjson")])
    judge(run, run.path("r_trace.ndjson"), "replay")
