# C07 -- type-name dispatch (Dispatch.tla over Vocab.tla)
import json, shutil
import vlib


def judge(run, trace_path, label):
    shutil.copy(trace_path, run.spec_path("c07_trace.ndjson"))
    r = run.tlc_eval("DispatchTrace", "c07_trace", timeout=1800)
    out = r.json_lines()
    if not out:
        raise vlib.Infra("DispatchTrace produced no verdict line:\n" + r.out[-3000:])
    v = out[-1]
    events = vlib.read_ndjson(trace_path)
    if v["consumed"] != len(events):
        raise vlib.Infra("trace not fully consumed: %s of %d" % (v["consumed"], len(events)))
    for b in v["bad"]:
        ev = events[b["l"] - 1]
        for why in b["why"]:
            key = "dispatch:%s:%s:%s" % (ev["ch"], ev["n"] or "(empty)", why)
            run.observe(key, "type name %r through %s with hooks %s -> %s (%s)" % (ev["n"], ev["ch"], ev["hooks"], json.dumps(ev["res"]), label),
                        dict(event=ev))
    return len(events)


def check(run):
    run.tlc_model("Dispatch", "c07_model", workers=4)
    run.tlc_eval("DispatchGen", "c07_gen")
    cases = run.spec_path("c07_cases.ndjson")
    ncases = sum(1 for _ in open(cases))
    run.vh(["c07-replay", cases, run.path("trace.ndjson")])
    n = judge(run, run.path("trace.ndjson"), "whole space")
    # growth leg (observations only): the *New constructors, Constructors.tla
    run.tlc_model("Constructors", "ctor_model", workers=4)
    run.tlc_eval("ConstructorsGen", "ctor_model")
    run.vh(["ctor-run", run.spec_path("ctor_calls.ndjson"), run.path("ctor_trace.ndjson")])
    shutil.copy(run.path("ctor_trace.ndjson"), run.spec_path("ctor_trace.ndjson"))
    rc = run.tlc_eval("ConstructorsTrace", "ctor_trace")
    cev = vlib.read_ndjson(run.path("ctor_trace.ndjson"))
    for b in rc.json_lines()[-1]["bad"]:
        ev = cev[b["l"] - 1]
        run.note("ctor:%s(%s):%s" % (ev["c"], ev["typ"], "+".join(b["why"])), "constructor reply %s differs from Constructors.tla" % json.dumps(ev["res"]))
    n += len(cev)
    # growth leg (observations only): the page constructors, Pages.tla
    run.tlc_model("Pages", "pages_model", workers=4)
    run.tlc_eval("PagesGen", "pages_gen", workers=1)
    run.vh(["pages-run", run.spec_path("pages_calls.ndjson"), run.spec_path("pages_trace.ndjson")])
    pv = run.tlc_eval("PagesTrace", "pages_trace").json_lines()[-1]
    pev = vlib.read_ndjson(run.spec_path("pages_trace.ndjson"))
    if pv["consumed"] != len(pev) or len(pev) < 100:
        raise vlib.Infra("Pages trace not fully consumed: %s of %d" % (pv["consumed"], len(pev)))
    for b in pv["bad"]:
        ev = pev[b["l"] - 1]
        run.note("page:%s(%s):%s" % (ev["kind"], ev["parent"].get("g"), "+".join(b["why"])), "page constructor result differs from Pages.tla %s" % ev.get("panic", "")[:100])
    run.cov["page_constructor_calls_judged"] = len(pev)
    for i, ev in enumerate(vlib.read_ndjson(run.path("trace.ndjson"))):
        if i % 200 == 5:
            run.sample(ev)
    run.cov.update(evaluations=n, distinct_nontrivial=ncases, exhaustive=True, traces_validated_against_impl=n,
                   rule="the whole space: 60 names (all vocabulary names, generic names, the empty name, 4 outsiders) x 7 channels "
                        "(registry, JSON top/item/list, gob top/item/list) x hooks unset/set; each request executed on the real code, "
                        "reply described by reflection + predicates + family lists + On* helpers, judged by DispatchTrace.tla")
    run.assumptions += ["for names outside the vocabulary the registry's documented fallback (an untyped empty Object) counts as nothing",
                        "generic names (Object, Actor, Activity, IntransitiveActivity) are not required to be in a family list"]


def replay(run, path):
    d = json.load(open(path))
    ev = d["case"]["event"]
    vlib.write_ndjson(run.path("one.ndjson"), [dict(ch=ev["ch"], n=ev["n"], hooks=ev["hooks"], expect={"g": ev["res"].get("g", "Object")})])
    # the expected Go type is needed to build gob values: take it from the model
    run.tlc_eval("DispatchGen", "c07_gen")
    for c in vlib.read_ndjson(run.spec_path("c07_cases.ndjson")):
        if (c["ch"], c["n"], c["hooks"]) == (ev["ch"], ev["n"], ev["hooks"]):
            vlib.write_ndjson(run.path("one.ndjson"), [c])
    run.vh(["c07-replay", run.path("one.ndjson"), run.path("r_trace.ndjson")])
    judge(run, run.path("r_trace.ndjson"), "replay")
