# C19 -- language-value containers behave as ordered maps (NatLang.tla)
import json, shutil
import vlib


def judge(run, trace_path, label):
    shutil.copy(trace_path, run.spec_path("c19_trace.ndjson"))
    r = run.tlc_eval("NatLangTrace", "c19_trace", timeout=1200)
    out = r.json_lines()
    if not out:
        raise vlib.Infra("NatLangTrace produced no verdict line:\n" + r.out[-2000:])
    v = out[-1]
    events = vlib.read_ndjson(trace_path)
    if v["consumed"] != len(events):
        raise vlib.Infra("trace not fully consumed: %s of %d" % (v["consumed"], len(events)))
    for b in v["bad"]:
        ev = events[b["l"] - 1]
        if ev["ev"] == "eq":
            key = "nlv:Equals:%s" % b["why"]
            run.observe(key, "Equals(%s, %s) = %s (%s)" % (json.dumps(ev["a"]), json.dumps(ev["b"]), ev["res"], label),
                        dict(eq=True, a=ev["a"], b=ev["b"]))
        else:
            i = b["l"] - 1
            while i >= 0 and events[i]["ev"] != "reset":
                i -= 1
            hist = [e for e in events[i:b["l"]] if e["ev"] == "op"]
            key = "nlv:%s:%s" % (b["op"], ev["res"].get("k", "?") if ev["res"].get("k") in ("panic", "err") else "step")
            run.observe(key, "%s step rejected by NatLang spec (%s)" % (b["op"], label), dict(ops=[e["op"] for e in hist], event=ev))
    return len(events)


def check(run):
    thorough = run.tier == "thorough"
    consts = {"MaxLen": 3, "Texts": '{"a", "b"}'} if not thorough else {"MaxLen": 3, "Texts": '{"a", "b", "c"}'}
    run.tlc_model("NatLang", "c19_model", workers=4, consts=consts, timeout=1800)
    run.tlc_eval("NatLangGen", "c19_gen", consts=consts, timeout=1800)
    cases, eqc = run.spec_path("c19_cases.ndjson"), run.spec_path("c19_eqcases.ndjson")
    n_cases = sum(1 for _ in open(cases))
    n_eq = sum(1 for _ in open(eqc))
    run.vh(["c19-replay", cases, eqc, run.path("g_trace.ndjson")])
    n1 = judge(run, run.path("g_trace.ndjson"), "replay of model transitions")
    nt, ln = (1500, 100) if thorough else (200, 100)
    run.vh(["c19-drive", nt, ln, run.path("v_trace.ndjson")])
    n2 = judge(run, run.path("v_trace.ndjson"), "random histories")
    with open(cases) as f:
        for i, l in enumerate(f):
            if i % 1500 == 11:
                run.sample(json.loads(l))
    run.cov.update(evaluations=n1 + n2, distinct_nontrivial=n_cases + n_eq, exhaustive=True,
                   traces_validated_against_impl=n_cases + n_eq + nt,
                   rule="G: every (contents of <=MaxLen entries over 3 tags x texts, op) pair of NatLang.tla incl. Set "
                        "(judged by its post-condition) and every ordered pair of tag-distinct lists for Equals; "
                        "V: %d random histories of %d calls + 4 Equals probes each; every event judged by NatLangTrace.tla" % (nt, ln))
    run.assumptions += ["texts are non-empty (an empty text cannot be told from 'no entry' through Get)"]


def replay(run, path):
    d = json.load(open(path))
    c = d["case"]
    if c.get("eq"):
        vlib.write_ndjson(run.path("r.ndjson"), [dict(eq=True, a=c["a"], b=c["b"])])
    else:
        vlib.write_ndjson(run.path("r.ndjson"), [dict(ops=c["ops"])])
    run.vh(["c19-ops", run.path("r.ndjson"), run.path("r_trace.ndjson")])
    judge(run, run.path("r_trace.ndjson"), "replay")
