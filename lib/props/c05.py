# C05 -- decoding reads what the document says; re-encoding is a fixpoint (JsonCodec.tla); also the term/kind clause of C02
import json, shutil
import vlib
from props import rtcommon


def judge(run, trace_path, label):
    shutil.copy(trace_path, run.spec_path("c05_trace.ndjson"))
    r = run.tlc_eval("JsonCodecTrace", "c05_trace", timeout=3000)
    out = r.json_lines()
    if not out:
        raise vlib.Infra("JsonCodecTrace produced no verdict line:\n" + r.out[-3000:])
    v = out[-1]
    events = vlib.read_ndjson(trace_path)
    if v["consumed"] != len(events):
        raise vlib.Infra("trace not fully consumed: %s of %d" % (v["consumed"], len(events)))
    for b in v["bad"]:
        ev = events[b["l"] - 1]
        for d in b["why"]:
            if d["sym"] == "error":
                key = "json-read:%s:error" % ev["lab"].get("g")
                what = "document %s: %s" % (ev["bytes"][:200], ev["err"][:200])
            elif d["g"] == "wire":
                key = "json-written:%s" % d["t"]
                what = "re-encoded form %s violates the term/kind rules: %s" % (ev.get("bytes1", "")[:300], d["t"])
            else:
                key = "json-read:%s.%s:%s" % (d["g"], d["t"], d["sym"])
                what = "document %s -> %s.%s %s at /%s" % (ev["bytes"][:300], d["g"], d["t"], d["sym"], "/".join(d["path"]))
            run.observe(key, what + " (" + label + ")", dict(event={k: ev[k] for k in ("lab", "bytes", "err")}, full=ev))
    return len(events)


def check(run):
    thorough = run.tier == "thorough"
    run.tlc_model("JsonCodecGen", "c05_model", workers=8, consts={"Tier": '"%s"' % run.tier}, timeout=3000)    # also writes the documents
    docs = run.spec_path("c05_docs.ndjson")
    ndocs = sum(1 for _ in open(docs))
    run.vh(["c05-run", docs, run.path("g_trace.ndjson")])
    n = judge(run, run.path("g_trace.ndjson"), "generated documents")
    run.vh(["c05-mocks", vlib.REPO + "/tests/mocks", run.path("m_trace.ndjson")])
    n += judge(run, run.path("m_trace.ndjson"), "mock documents and mutations")
    with open(docs) as f:
        for i, l in enumerate(f):
            if i % 2500 == 9:
                run.sample(json.loads(l))
    run.cov.update(evaluations=n, distinct_nontrivial=ndocs, exhaustive=True, traces_validated_against_impl=n,
                   rule="G: every distinct presentation (item as string/array, list as array/single, language value as plain string / map under "
                        "the term / map under termMap) of the OneField, Nested1 and Full case values%s, written to bytes by encoding/json; "
                        "the 19 mock documents and 4 structure-preserving mutations each; pipeline decode -> encode -> decode -> encode on the "
                        "real code; JsonCodecTrace.tla compares with Dec(doc), checks the second trip, byte fixpoint and WireOK of the written form"
                        % (" and Pairwise on 3 types" if thorough else ""))
    run.assumptions += ["strings in item positions denote IRIs (acceptance of non-absolute IRIs is not demanded)",
                        "unknown members and @context are ignored", "instants/durations are recognised by an independent parser in the harness"]


def replay(run, path):
    d = json.load(open(path))
    ev = d["case"]["full"]
    vlib.write_ndjson(run.path("one.ndjson"), [dict(lab=ev["lab"], doc=ev["doc"])])
    run.vh(["c05-run", run.path("one.ndjson"), run.path("r_trace.ndjson")])
    judge(run, run.path("r_trace.ndjson"), "replay")
