# Delivery.tla: the delivery protocol (address -> strip -> encode -> deliver x2 messages, re-deliveries) composed from the operations
# of C10, C11, C01, C15 and C13; run as an extra leg of C10.  'address' steps are C10's own operation and give verdicts there;
# the other steps are judged by their own properties' checks and are reported here as observations.
import json, shutil
import vlib


def run_delivery(run, cases_path, own_op="address", prefix="rcpt"):
    thorough = run.tier == "thorough"
    run.tlc_model("DeliveryModel", "delivery_model", workers=8, consts={"MaxTotal": 3 if thorough else 2}, timeout=1800)
    f = run.tlc("DeliveryModel", "delivery_wrong_order", workers=8, consts={"MaxTotal": 2}, timeout=900)
    if "Invariant EveryoneServed is violated" not in f.out:
        raise vlib.Infra("Delivery.tla with Strip allowed before Address was not rejected: EveryoneServed would be vacuous")
    run.vh(["deliv-run", cases_path, run.spec_path("delivery_trace.ndjson"), 1 if thorough else 3], timeout=1800)
    r = run.tlc_eval("DeliveryTrace", "delivery_trace", workers=1, timeout=3000)
    v = r.json_lines()[-1]
    events = vlib.read_ndjson(run.spec_path("delivery_trace.ndjson"))
    if v["consumed"] != len(events) or len(events) < 1000:
        raise vlib.Infra("delivery trace not fully consumed: %s of %d" % (v["consumed"], len(events)))
    for b in v["bad"]:
        ev = events[b["l"] - 1]
        why = "+".join(b["why"])
        what = "delivery protocol, step %s on %s (%s): %s; pre=%s post=%s %s" % (ev["op"], ev["gotype"], ev["pattern"], why, json.dumps(ev["pre"])[:300],
                                                                           json.dumps(ev["post"])[:300], ev["panic"][:100])
        if ev["op"] == own_op:
            run.observe("%s:delivery:%s:%s" % (prefix, ev["gotype"], why), what, dict(event=ev))
        else:
            run.note("delivery:%s:%s:%s" % (ev["op"], ev["gotype"], why), what)
    own = sum(1 for e in events if e["op"] == own_op)
    run.cov["delivery_steps_judged"] = len(events)
    run.cov["traces_validated_against_impl"] += own
    run.cov["evaluations"] += own
    run.cov["rule"] = (run.cov.get("rule") or "") + (" | delivery leg (Delivery.tla: all interleavings and re-deliveries model-checked; config with the wrong "
                      "call order must fail): %d protocol steps of %d histories on the real library judged by DeliveryTrace.tla, %d of them Recipients() steps"
                      % (len(events), sum(1 for e in events if e["op"] == "final"), own))
    return own
