# Lifecycle.tla: mixed histories (flatten / clean / JSON / gob) on one value; used as an extra leg by C01 C03 C11 C16,
# each of which reports only the steps of its own operation.
import json, shutil
import vlib


def run_life(run, own_op, prefix):
    thorough = run.tier == "thorough"
    run.tlc_model("LifecycleGen", "life_model", workers=8, consts={"MaxLen": 4 if thorough else 3}, timeout=1800)   # also writes the cases
    cases = run.spec_path("life_cases.ndjson")
    run.vh(["life-run", cases, run.path("life_trace.ndjson")])
    shutil.copy(run.path("life_trace.ndjson"), run.spec_path("life_trace.ndjson"))
    r = run.tlc_eval("LifecycleTrace", "life_trace", timeout=1800)
    out = r.json_lines()
    if not out:
        raise vlib.Infra("LifecycleTrace produced no verdict line:\n" + r.out[-3000:])
    v = out[-1]
    events = vlib.read_ndjson(run.path("life_trace.ndjson"))
    if v["consumed"] != len(events):
        raise vlib.Infra("lifecycle trace not fully consumed")
    for b in v["bad"]:
        ev = events[b["l"] - 1]
        if ev["op"] != own_op:
            continue                  # reported by the check that owns that operation
        for d in b["why"]:
            run.observe("%s:lifecycle:%s:%s:%s" % (prefix, ev["pre"].get("g"), d["t"], d["sym"]),
                        "step %d (%s) of history %s on case %s: %s %s %s" % (ev["n"] + 1, ev["op"], ev["ops"], json.dumps(ev["lab"]), d["t"], d["sym"], ev["err"][:100]),
                        dict(event=ev))
    own = sum(1 for e in events if e["op"] == own_op)
    run.cov["rule"] = (run.cov.get("rule") or "") + " | lifecycle leg (Lifecycle.tla): %d histories of <=%d operations over {flatten, clean, json, gob} on 5 composite values, %d '%s' steps judged" % (
        sum(1 for _ in open(cases)), 4 if thorough else 3, own, own_op)
    run.cov["traces_validated_against_impl"] += own
    run.cov["evaluations"] += own
    return own
