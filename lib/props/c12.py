# C12 -- read-only operations never modify their arguments and are race-free (ReadOnly.tla)
import json, os, shutil
import vlib


def judge(run, events, label):
    vlib.write_ndjson(run.spec_path("c12_trace.ndjson"), events)
    r = run.tlc_eval("ReadOnlyTrace", "c12_trace", timeout=3000)
    out = r.json_lines()
    if not out:
        raise vlib.Infra("ReadOnlyTrace produced no verdict line:\n" + r.out[-3000:])
    v = out[-1]
    if v["consumed"] != len(events):
        raise vlib.Infra("trace not fully consumed: %s of %d" % (v["consumed"], len(events)))
    for b in v["bad"]:
        ev = events[b["l"] - 1]
        why = "+".join(b["why"])
        if ev["ev"] == "frame":
            key = "readonly:frame:%s:%s:%s" % (ev["op"], ev["g"], why)
            what = "%s on a %s value %s (case %s) %s" % (ev["op"], ev["g"], why, json.dumps(ev.get("lab")), ev.get("msg", "")[:120])
        elif ev["ev"] == "sched":
            key = "readonly:sched:%s:%s" % ("+".join(ev["ops"]), why)
            what = "goroutines running %s on one shared %s: %s" % (ev["ops"], ev["root"], why)
        else:
            key = "readonly:race:%s" % ev["where"]
            what = "data race reported by the Go race detector in %s: %s" % (ev["where"], ev.get("report", "")[:600].replace("\n", " | "))
        run.observe(key, what + " (" + label + ")", dict(event=ev))
    return len(events)


def check(run):
    thorough = run.tier == "thorough"
    # M: every interleaving of N goroutines of read-only operations keeps the heap frozen ...
    run.tlc_model("ReadOnly", "c12_model", workers=4, consts={"N": 4 if thorough else 3}, timeout=1800)
    # ... and the model is not vacuous: a write-then-restore operation is caught by the interleaving check but not by snapshots
    f = run.tlc("ReadOnly", "c12_faulty", workers=2, timeout=600)
    if "Invariant SameAsSequential is violated" not in f.out:
        raise vlib.Infra("the faulty configuration of ReadOnly.tla was not rejected: the model would be vacuous")
    run.tlc_model("ReadOnly", "c12_faulty_snapshot", workers=2, timeout=600)
    # G: operations, values and schedules from the specification
    run.tlc_eval("ReadOnlyGen", "c12_gen", timeout=1800)
    vals, ops, sched = run.spec_path("c12_vals.ndjson"), run.spec_path("c12_ops.ndjson"), run.spec_path("c12_sched.ndjson")
    all_sched = vlib.read_ndjson(sched)
    if not thorough:
        all_sched = [s for s in all_sched if s["root"] in ("Object", "Activity", "Actor", "OrderedCollection")]
    vlib.write_ndjson(run.path("sched.ndjson"), all_sched)
    run.vh(["c12-frame", vals, ops, run.path("frame.ndjson")], timeout=3000)
    rb = run.build(race=True)
    logp = run.path("racelog")
    run.vh(["c12-sched", run.path("sched.ndjson"), vals, run.path("sched_out.ndjson"), 30 if thorough else 6], binary=rb,
           env={"GORACE": "halt_on_error=0 exitcode=0 log_path=%s" % logp}, timeout=3000)
    run.vh(["c12-races", logp, run.path("races.ndjson")])
    frame = vlib.read_ndjson(run.path("frame.ndjson"))
    sch = vlib.read_ndjson(run.path("sched_out.ndjson"))
    races = vlib.read_ndjson(run.path("races.ndjson"))
    n = judge(run, frame + sch + races, "frame check + schedules under -race")
    run.sample(frame[0]); run.sample(sch[0]); run.sample(all_sched[7])
    nvals = sum(1 for _ in open(vals))
    run.cov.update(evaluations=n, distinct_nontrivial=nvals + len(all_sched), exhaustive=False, traces_validated_against_impl=n,
                   rule="frame check: %d case values (OneField of 8 root types, Nested1, Full; every 4th in value form) rebuilt with 3 spare "
                        "sentinel elements behind every slice x 16 read-only operations, deep snapshot up to slice CAPACITY before/after; schedules: "
                        "all unordered operation pairs x %d root types, 4 goroutines on one shared Full value + 2 goroutines decoding unrelated "
                        "documents, under the Go race detector, results compared with the sequential ones; judged by ReadOnlyTrace.tla"
                        % (nvals, len(set(s["root"] for s in all_sched))))
    run.assumptions += ["real interleavings are not enumerated: between barriers any write concurrent with any access is flagged by the race "
                        "detector whatever the actual schedule, so covering operation pairs is what matters",
                        "gob results are compared after decoding (Go map iteration order makes the bytes vary)"]


def replay(run, path):
    check(run)
