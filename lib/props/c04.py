# C04 -- decoders are total (Hostile.tla)
import json, shutil
import vlib


def judge(run, events, label):
    for ev in events:          # TLC integers are 32-bit: bytes -> kB, clamped
        ev["allockb"] = min(int(ev.get("alloc", 0)) // 1000, 2000000000)
        ev["ms"] = min(int(ev.get("ms", 0)), 2000000000)
        ev["len"] = min(int(ev.get("len", 0)), 400000000)
    vlib.write_ndjson(run.spec_path("c04_trace.ndjson"), events)
    r = run.tlc_eval("HostileTrace", "c04_trace", timeout=3000)
    out = r.json_lines()
    if not out:
        raise vlib.Infra("HostileTrace produced no verdict line:\n" + r.out[-3000:])
    v = out[-1]
    if v["consumed"] != len(events):
        raise vlib.Infra("trace not fully consumed: %s of %d" % (v["consumed"], len(events)))
    for b in v["bad"]:
        ev = events[b["l"] - 1]
        cls = ev["case"].split(":")
        if cls[0] == "doc":
            inp = "doc:%s:%s" % (cls[2], cls[3])          # shape and nesting
        elif cls[0] == "gob" and cls[1] == "nest":
            inp = "gob:nest"             # the same input class whichever gob entry point receives it
        elif cls[0] == "gob":
            inp = "gob:" + cls[2]
        elif cls[0] == "bytes":
            inp = "bytes:" + cls[1]
        else:
            inp = cls[0]
        for why in b["why"]:
            key = "total:%s:%s:%s" % ("(gob entry)" if inp == "gob:nest" else ev["entry"], inp, why)
            msg = ev.get("msg") or next((f.get("msg", "") for f in ev["follow"] if f.get("msg")), "")
            run.observe(key, "%s on %s (%d bytes): %s %s ms=%s alloc=%s (%s)" % (ev["entry"], ev["case"], ev["len"], why, msg[:160], ev["ms"], ev["alloc"], label),
                        dict(event=ev))
    return len(events)


def suspect(ev):
    return (ev["outcome"] not in ("value", "error") or any(f["o"] not in ("ok", "error") for f in ev["follow"])
            or ev["ms"] > 300 or ev["alloc"] > 16000000)


def check(run):
    thorough = run.tier == "thorough"
    run.tlc_model("Hostile", "c04_model", workers=8, consts={"Tier": '"model"' if not thorough else '"quick"'}, timeout=1800)
    g = run.tlc_eval("HostileGen", "c04_gen", consts={"Tier": '"%s"' % run.tier}, timeout=3000)
    docs = g.json_lines()
    vlib.write_ndjson(run.path("docs.ndjson"), docs)
    run.vh(["c04-run", run.path("docs.ndjson"), run.tier, run.path("out.ndjson"), run.path("stats.json")], timeout=3000)
    st = json.load(open(run.path("stats.json")))
    events, total = [], 0
    with open(run.path("out.ndjson")) as f:
        for l in f:
            if not l.strip():
                continue
            try:
                ev = json.loads(l)
            except ValueError:
                continue          # partial line left by a crashed child; the crash itself is recorded as an abort event
            total += 1
            if suspect(ev) or total % (50 if thorough else 15) == 0:
                events.append(ev)
    n = judge(run, events, "hostile inputs")
    for d in docs[::4000]:
        run.sample({k: d[k] for k in ("g", "t", "shape", "nest")})
    run.sample(events[0])
    run.cov.update(evaluations=total, distinct_nontrivial=st["cases"], exhaustive=False, traces_validated_against_impl=n,
                   rule="hostile documents of HostileGen.tla (every Go type x every term incl. *Map/@context/unknown x 34 JSON shapes incl. "
                        "nesting depth 50/300/301/10000 x nesting position) + the empty input, all 256 one-byte inputs, every prefix of 26 "
                        "documents, truncations and seeded bit flips of valid gob streams = %d inputs, each to the applicable ones of %d entry "
                        "points (%s); decode + follow-ups (format, inspect, compare, re-encode JSON/gob) under recover(), an 8 s watchdog and an "
                        "allocation measurement in child processes; suspects and a sample judged by HostileTrace.tla"
                        % (st["cases"], st["entries"], "all of them" if thorough else "package entry, the document's own type, a 1/9 rotation of the rest"))
    run.assumptions += ["'all byte strings' is covered as a hostile-document grammar plus bounded byte-level damage, not literally",
                        "allocation below 128 MB + 4 kB/byte is accepted (encoding/gob itself allocates tens of MB on a corrupted length prefix)"]


def replay(run, path):
    raise vlib.Infra("re-run ./check C04 (the replay file names entry point and input class; inputs are regenerated deterministically from VERIF_SEED)")
