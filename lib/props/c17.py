# C17 -- timestamp ordering is a strict weak order (Order.tla)
import json, shutil
import vlib


def judge(run, trace_path, label):
    shutil.copy(trace_path, run.spec_path("c17_trace.ndjson"))
    r = run.tlc_eval("OrderTrace", "c17_trace", timeout=1800)
    out = r.json_lines()
    if not out:
        raise vlib.Infra("OrderTrace produced no verdict line:\n" + r.out[-2000:])
    v = out[-1]
    events = vlib.read_ndjson(trace_path)
    if v["consumed"] != len(events):
        raise vlib.Infra("trace not fully consumed: %s of %d" % (v["consumed"], len(events)))
    gotypes = ["Object", "Actor", "Activity", "IntransitiveActivity", "Question", "Place", "Profile", "Relationship",
               "Tombstone", "Collection", "CollectionPage", "OrderedCollection", "OrderedCollectionPage"]
    for b in v["bad"]:
        ev = events[b["l"] - 1]
        if ev["ev"] == "less":
            key = "order:less:%s" % "+".join(b["why"])
            what = "ItemOrderTimestamp(%s %s, %s %s) = %s (%s)" % (
                gotypes[(ev["fa"] // 2) % 13], json.dumps(ev["a"]), gotypes[(ev["fb"] // 2) % 13], json.dumps(ev["b"]),
                json.dumps(ev["res"]), label)
        else:
            key = "order:sort:%s" % "+".join(b["why"])
            what = "sort.Slice with ItemOrderTimestamp: %s -> %s (%s)" % (json.dumps(ev["in"]), json.dumps(ev["out"]), label)
        run.observe(key, what, dict(event=ev))
    return len(events)


def check(run):
    thorough = run.tier == "thorough"
    run.tlc_model("Order", "c17_model", workers=4, consts={"MaxLen": 5 if thorough else 4}, timeout=1800)
    run.tlc_eval("OrderGen", "c17_gen", timeout=1800)
    pairs, lists = run.spec_path("c17_pairs.ndjson"), run.spec_path("c17_lists.ndjson")
    run.vh(["c17-replay", pairs, lists, run.path("g_trace.ndjson"), "all" if thorough else "rot"])
    n1 = judge(run, run.path("g_trace.ndjson"), "replay of model cases")
    nl = 20000 if thorough else 3000
    run.vh(["c17-drive", nl, 12, 6, run.path("v_trace.ndjson")])
    n2 = judge(run, run.path("v_trace.ndjson"), "random lists")
    npairs = sum(1 for _ in open(pairs)); nlists = sum(1 for _ in open(lists))
    for i, ev in enumerate(vlib.read_ndjson(run.path("g_trace.ndjson"))):
        if i % 4000 == 5:
            run.sample(ev)
    run.cov.update(evaluations=n1 + n2, distinct_nontrivial=npairs + nlists, exhaustive=True,
                   traces_validated_against_impl=n1 + n2,
                   rule="G: all 17x17 ordered pairs of abstract items (nil, published/updated over 4 instants) in %s Go-type "
                        "form combinations (13 object types x value/pointer) with random zone presentations, and all lists "
                        "of <=4 items sorted with sort.Slice; V: %d random lists of <=12 items over 7 instants; every event "
                        "judged by OrderTrace.tla against Less/Sorted of Order.tla" % ("all 26x26" if thorough else "rotating", nl))
    run.assumptions += ["links and bare IRIs are outside the property", "instants are whole seconds 45 minutes apart shown in 3 zones"]


def replay(run, path):
    d = json.load(open(path))
    with open(run.path("ev.json"), "w") as f:
        json.dump(d["case"]["event"], f)
    run.vh(["c17-one", run.path("ev.json"), run.path("r_trace.ndjson")])
    judge(run, run.path("r_trace.ndjson"), "replay")
