# Shared by C01 (JSON) and C03 (gob): run cases through the real codec, let JsonRTTrace.tla judge.
import json, shutil, collections
import vlib


def shape_at(v, path):
    """Shape class of the input value at a diff path (for the finding key)."""
    cur = v
    for seg in path:
        if cur is None:
            break
        if isinstance(cur, dict) and cur.get("k") == "list" and not seg.isdigit() and len(cur.get("e", [])) == 1:
            cur = cur["e"][0]          # list-of-one unwrapped by the normal form
        if isinstance(cur, dict) and cur.get("k") in ("obj", "source", "endpoints", "pubkey"):
            cur = cur.get("p", {}).get(seg)
        elif isinstance(cur, dict) and cur.get("k") == "list" and seg.isdigit():
            e = cur.get("e", [])
            cur = e[int(seg) - 1] if int(seg) - 1 < len(e) else None
        else:
            cur = None
    return shape_of(cur)


def shape_of(x):
    if not isinstance(x, dict):
        return "?"
    k = x.get("k")
    if k == "obj":
        p = x.get("p", {})
        if "id" not in p and "type" not in p:
            return "untyped-object"
        if "type" not in p:
            return "typeless-object"
        return "object:" + x.get("g", "?")
    if k == "list":
        n = len(x.get("e", []))
        kinds = sorted(set("iri" if e.get("k") == "iri" else "object" for e in x.get("e", [])))
        return "list%s:%s" % ("1" if n == 1 else "N", "+".join(kinds))
    if k == "nlv":
        n = len(x.get("e", []))
        if n == 1:
            return "nlv1-plain" if x["e"][0]["r"] == "-" else "nlv1-tagged"
        return "nlvN"
    if k == "int":
        return "int-neg" if x["n"] < 0 else "int-pos"
    if k == "float":
        return "float-neg" if str(x["f"]).startswith("-") else "float-pos"
    if k == "dur":
        return "dur-neg" if x["s"] < 0 else "dur-pos"
    if k == "time":
        return "time-nanos" if x.get("ns") else ("time-zone" if x.get("off") else "time-utc")
    return str(k)


def judge(run, trace_path, prefix, label):
    shutil.copy(trace_path, run.spec_path("rt_trace.ndjson"))
    r = run.tlc_eval("JsonRTTrace", "rt_trace", timeout=3000)
    out = r.json_lines()
    if not out:
        raise vlib.Infra("JsonRTTrace produced no verdict line:\n" + r.out[-3000:])
    v = out[-1]
    events = vlib.read_ndjson(trace_path)
    if v["consumed"] != len(events):
        raise vlib.Infra("trace not fully consumed: %s of %d" % (v["consumed"], len(events)))
    for b in v["bad"]:
        ev = events[b["l"] - 1]
        for d in b["why"]:
            if d["sym"] == "error":
                g = ev["in"].get("g", ev["in"].get("k"))
                key = "%s:%s:%s:error" % (prefix, g, ev["via"])
                what = "%s round trip (%s) of %s failed: %s" % (ev["codec"], ev["via"], json.dumps(ev["lab"]), ev["err"][:200])
            else:
                shape = shape_at(ev["in"], d["path"])
                key = "%s:%s.%s:%s:%s" % (prefix, d["g"], d["t"], shape, d["sym"])
                what = "%s round trip (%s): %s.%s %s at /%s; case %s" % (ev["codec"], ev["via"], d["g"], d["t"], d["sym"],
                                                                        "/".join(d["path"]), json.dumps(ev["lab"]))
            run.observe(key, what + " (" + label + ")", dict(event={k: ev[k] for k in ev if k != "raw"}, raw=ev.get("raw"), diff=d))
    return len(events)
