import json, shutil
import vlib


def judge(run, trace_path, keyfn):
    shutil.copy(trace_path, run.spec_path("text_trace.ndjson"))
    r = run.tlc_eval("TextTrace", "text_trace", timeout=3000)
    out = r.json_lines()
    if not out:
        raise vlib.Infra("TextTrace produced no verdict line:\n" + r.out[-3000:])
    v = out[-1]
    events = vlib.read_ndjson(trace_path)
    if v["consumed"] != len(events):
        raise vlib.Infra("trace not fully consumed: %s of %d" % (v["consumed"], len(events)))
    for b in v["bad"]:
        ev = events[b["l"] - 1]
        for why in b["why"]:
            key, what = keyfn(ev, why)
            run.observe(key, what, dict(event=ev))
    return len(events)


CLASS = {"nul": "control", "cdata-end": "markup", "close-tag": "markup", "quote": "quote", "bslash": "backslash", "lf": "control", "cr": "control", "tab": "control", "soh": "control", "esc": "control",
         "inject": "json-fragment", "uescape": "escape-lookalike", "winpath": "backslash", "num": "json-literal", "true": "json-literal",
         "null": "json-literal", "arr": "json-literal", "langmap": "json-literal", "quoted": "quote", "badutf8": "invalid-utf8"}


def show(syms):
    if len(syms) > 8:
        return "<%s>x%d<%s>" % (syms[0], len(syms) - 1, syms[-1])
    return "".join("<%s>" % s for s in syms)


def sym_class(syms):
    cs = sorted(set(CLASS.get(s, "plain") for s in syms))
    hard = [c for c in cs if c != "plain"]
    return ("long:" if len(syms) >= 100 else "") + ("+".join(hard) if hard else "plain")


def gen_strings(run, genl, withbad):
    run.tlc_eval("TextGen", "text_gen", consts={"GenL": genl, "WithBad": "TRUE" if withbad else "FALSE"}, timeout=3000)
    return run.spec_path("text_strings.ndjson")
