# C16 -- flattening (Flatten.tla)
import json, shutil
import vlib
from props import rtcommon


def judge(run, trace_path, label):
    shutil.copy(trace_path, run.spec_path("c16_trace.ndjson"))
    r = run.tlc_eval("FlattenTrace", "c16_trace", timeout=3000)
    out = r.json_lines()
    if not out:
        raise vlib.Infra("FlattenTrace produced no verdict line:\n" + r.out[-3000:])
    v = out[-1]
    events = vlib.read_ndjson(trace_path)
    if v["consumed"] != len(events):
        raise vlib.Infra("trace not fully consumed: %s of %d" % (v["consumed"], len(events)))
    for b in v["bad"]:
        ev = events[b["l"] - 1]
        g = ev["pre"].get("g")
        for d in b["why"]:
            shape = rtcommon.shape_of(ev["pre"].get("p", {}).get(d["t"])) if d["t"] != "*" else "*"
            key = "flatten:%s:%s:%s:%s" % (g, d["t"], shape, d["sym"])
            run.observe(key, "%s on %s: %s %s (%s) %s" % (ev["via"], g, d["t"], d["sym"], label, ev.get("msg", "")[:100]), dict(event=ev))
    return len(events)


def check(run):
    thorough = run.tier == "thorough"
    run.tlc_model("FlattenGen", "c16_model", workers=8, timeout=900)     # also writes the cases (ASSUME)
    cases = run.spec_path("c16_cases.ndjson")
    ncases = sum(1 for _ in open(cases))
    run.vh(["c16-replay", cases, run.path("g_trace.ndjson")])
    n = judge(run, run.path("g_trace.ndjson"), "model cases")
    nr = 12000 if thorough else 1500
    run.vh(["c16-drive", nr, run.path("v_trace.ndjson")])
    n += judge(run, run.path("v_trace.ndjson"), "random values")
    with open(cases) as f:
        for i, l in enumerate(f):
            if i % 450 == 3:
                run.sample(json.loads(l))
    run.cov.update(evaluations=n, distinct_nontrivial=ncases, exhaustive=True, traces_validated_against_impl=n,
                   rule="G: 6 root types x every flattened single position x 10 child shapes (IRI, object by pointer/value, actor, id-less, "
                        "link with/without id, activity, collection, place); addressing lists of 2-3 entries incl. duplicates on 3 roots x 5 "
                        "lists; frame cases on non-flattened properties; each through FlattenProperties and the direct function, applied "
                        "twice (idempotence); V: %d random depth-2 values; judged by FlattenTrace.tla with FlattenWhy" % nr)
    run.assumptions += ["embedded collections and list-valued single positions are only required not to invent IRIs",
                        "duplicate addressees may or may not survive (lists compared by first occurrences)",
                        "generic type names (Object, Actor, Activity, IntransitiveActivity) are not used for roots"]
    from props import lifecommon
    lifecommon.run_life(run, "flatten", "flatten")


def replay(run, path):
    d = json.load(open(path))
    ev = d["case"]["event"]
    vlib.write_ndjson(run.path("one.ndjson"), [dict(lab=ev.get("lab", {}), v=ev["pre"])])
    run.vh(["c16-replay", run.path("one.ndjson"), run.path("r_trace.ndjson")])
    judge(run, run.path("r_trace.ndjson"), "replay")
