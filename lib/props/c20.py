# C20 -- nil and typed-nil items (NilMatrix.tla)
import json, shutil
import vlib


def judge(run, trace_path, label):
    shutil.copy(trace_path, run.spec_path("c20_trace.ndjson"))
    r = run.tlc_eval("NilMatrixTrace", "c20_trace", timeout=1800)
    out = r.json_lines()
    if not out:
        raise vlib.Infra("NilMatrixTrace produced no verdict line:\n" + r.out[-3000:])
    v = out[-1]
    events = vlib.read_ndjson(trace_path)
    if v["consumed"] != len(events):
        raise vlib.Infra("trace not fully consumed: %s of %d" % (v["consumed"], len(events)))
    for b in v["bad"]:
        ev = events[b["l"] - 1]
        nk = "nil" if ev["nk"] == "nil" else "typed-nil"
        cont = ev.get("container", "").split(":")[-1]
        key = "nil:%s:%s:%s%s:%s" % (ev["h"], nk, ev["pos"], (":" + cont) if cont else "", "+".join(b["why"]))
        run.observe(key, "%s on %s at %s %s -> %s %s (%s)" % (ev["h"], ev["nk"], ev["pos"], ev.get("container", ""), ev["class"], ev.get("msg", "")[:150], label),
                    dict(event=ev))
    return len(events)


def check(run):
    run.tlc_model("NilMatrix", "c20_model", workers=4)
    run.tlc_eval("NilMatrixGen", "c20_gen")
    cells = run.spec_path("c20_cells.ndjson")
    ncells = sum(1 for _ in open(cells))
    run.vh(["c20-replay", cells, run.path("trace.ndjson")])
    n = judge(run, run.path("trace.ndjson"), "whole matrix")
    for i, ev in enumerate(vlib.read_ndjson(run.path("trace.ndjson"))):
        if i % 500 == 7:
            run.sample(ev)
    run.cov.update(evaluations=n, distinct_nontrivial=ncells, exhaustive=True, traces_validated_against_impl=n,
                   rule="the whole matrix of NilMatrix.tla: 66 helpers x 15 nil kinds at top level, 14 container helpers x 15 nil kinds x "
                        "{list member (between real members and as the only member), property (4 hand-built holders and every item-typed property of every struct type, one at a time)}; outcome class and callback argument class observed with "
                        "recover() and judged by NilMatrixTrace.tla")
    run.assumptions += ["any neutral value (nil, empty, false, zero bytes, null) or an error is accepted where the statement does not fix the answer"]


def replay(run, path):
    d = json.load(open(path))
    ev = d["case"]["event"]
    vlib.write_ndjson(run.path("one.ndjson"), [dict(h=ev["h"], nk=ev["nk"], pos=ev["pos"])])
    run.vh(["c20-replay", run.path("one.ndjson"), run.path("r_trace.ndjson")])
    judge(run, run.path("r_trace.ndjson"), "replay")
