# C02 -- emitted JSON is valid, unambiguous, injection-free (Text.tla for strings; term/kind checks live in C05's JsonCodec)
import json
import vlib
from props import textcommon


def keyfn(ev, why):
    return ("json-emit:%s:%s:%s" % (ev["pos"], textcommon.sym_class(ev["syms"]), why),
            "%s via %s with %s -> %s; wrote %r %s" % (ev["pos"], ev["via"], textcommon.show(ev["syms"]), why, ev.get("raw", "")[:200], ev["err"][:100]))


def check(run):
    thorough = run.tier == "thorough"
    run.tlc_model("Text", "text_model", workers=8, consts={"L": 3 if thorough else 2}, timeout=1800)
    strings = textcommon.gen_strings(run, 3 if thorough else 2, True)
    nstr = sum(1 for _ in open(strings))
    run.vh(["c02-run", strings, run.path("trace.ndjson"), run.path("stats.json"), 5000 if thorough else 500, 2], timeout=3000)
    st = json.load(open(run.path("stats.json")))
    n = textcommon.judge(run, run.path("trace.ndjson"), keyfn)
    if st["bad"] and not run.observed:
        raise vlib.Infra("harness saw %d mismatches that TextTrace did not reject" % st["bad"])
    # term / kind clause: what the library writes for every case value (JsonCodec.tla: WireOKWhy, WrittenNamesWhy)
    run.tlc_eval("JsonRTGen", "rt_gen", consts={"Gob": "FALSE", "Tier": '"%s"' % run.tier}, timeout=3000)
    # the reply chains of 120 levels are a C01 matter; as tagged trees they exceed what TLC's Json module reads back (255 nested values)
    cases = [c for c in vlib.read_ndjson(run.spec_path("rt_cases.ndjson")) if c["lab"]["fam"] != "deep"]
    vlib.write_ndjson(run.spec_path("rt_cases.ndjson"), cases)
    run.vh(["c02-wire", run.spec_path("rt_cases.ndjson"), run.path("wire.ndjson")])
    from props import c05
    import shutil as _sh
    _sh.copy(run.path("wire.ndjson"), run.spec_path("c05_trace.ndjson"))
    r = run.tlc_eval("JsonCodecTrace", "c05_trace", timeout=3000)
    v = r.json_lines()[-1]
    wev = vlib.read_ndjson(run.path("wire.ndjson"))
    if v["consumed"] != len(wev):
        raise vlib.Infra("wire trace not fully consumed")
    for b in v["bad"]:
        ev = wev[b["l"] - 1]
        for d in b["why"]:
            run.observe("json-written:%s:%s" % (ev["in"].get("g"), d["t"]),
                        "MarshalJSON (%s) of case %s wrote %s: %s" % (ev["via"], json.dumps(ev["lab"]), ev.get("bytes", "")[:200], d["t"]), dict(event=ev))
    n += len(wev)
    for i, ev in enumerate(vlib.read_ndjson(run.path("trace.ndjson"))):
        if i % 50 == 3:
            run.sample({k: ev[k] for k in ("pos", "via", "syms", "in", "dec", "valid")})
    run.cov.update(evaluations=st["evaluations"], distinct_nontrivial=nstr * st["positions"], exhaustive=True, traces_validated_against_impl=n,
                   rule="all strings over the alphabet of Text.tla plus an invalid-UTF-8 byte up to length %d (%d strings; length-3 strings on a "
                        "1/13 rotation of positions) x %d string-bearing positions x {ap.MarshalJSON, T.MarshalJSON}; bytes parsed with "
                        "encoding/json (duplicate detection, member-shape comparison against a benign string, string compared byte-exactly); "
                        "disagreements and a sample of agreements judged by TextTrace.tla; term/kind clause: every case value of Cases.tla written by "
                        "both MarshalJSON paths, parsed to a tagged tree and judged by JsonCodecTrace.tla (declared terms only, prescribed JSON kinds, "
                        "no duplicate member, member names = those of the reference writer)" % (3 if thorough else 2, nstr, st["positions"]))


def replay(run, path):
    d = json.load(open(path))
    ev = d["case"]["event"]
    vlib.write_ndjson(run.path("one.ndjson"), [dict(syms=ev["syms"], hex=ev["in"])])
    run.vh(["c02-run", run.path("one.ndjson"), run.path("r.ndjson"), run.path("s.json"), 1, 9])
    textcommon.judge(run, run.path("r.ndjson"), keyfn)
