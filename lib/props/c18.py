# C18 -- CopyItemProperties (Copy.tla)
import json, shutil
import vlib


def judge(run, trace_path, label):
    shutil.copy(trace_path, run.spec_path("c18_trace.ndjson"))
    r = run.tlc_eval("CopyTrace", "c18_trace", timeout=3000)
    out = r.json_lines()
    if not out:
        raise vlib.Infra("CopyTrace produced no verdict line:\n" + r.out[-3000:])
    v = out[-1]
    events = vlib.read_ndjson(trace_path)
    if v["consumed"] != len(events):
        raise vlib.Infra("trace not fully consumed: %s of %d" % (v["consumed"], len(events)))
    for b in v["bad"]:
        ev = events[b["l"] - 1]
        g = ev["to"].get("g") or ev["from"].get("g") or "nil"
        for d in b["why"]:
            key = "copy:%s:%s:%s" % (g, d["t"], d["sym"])
            run.observe(key, "CopyItemProperties(to, from) on %s: %s %s; err=%s %s (%s)" % (g, d["t"], d["sym"], ev["err"], ev.get("msg", "")[:100], label),
                        dict(event=ev))
    return len(events)


def check(run):
    thorough = run.tier == "thorough"
    run.tlc_model("Copy", "c18_model", workers=8, timeout=600)
    run.tlc_eval("CopyGen", "c18_gen", timeout=1800)
    cases = run.spec_path("c18_cases.ndjson")
    ncases = sum(1 for _ in open(cases))
    run.vh(["c18-replay", cases, run.path("g_trace.ndjson")])
    n = judge(run, run.path("g_trace.ndjson"), "model cases")
    nr = 20000 if thorough else 2500
    run.vh(["c18-drive", nr, run.path("v_trace.ndjson")])
    n += judge(run, run.path("v_trace.ndjson"), "random subsets")
    with open(cases) as f:
        for i, l in enumerate(f):
            if i % 1200 == 3:
                run.sample(json.loads(l))
    run.cov.update(evaluations=n, distinct_nontrivial=ncases, exhaustive=True, traces_validated_against_impl=n,
                   rule="G: per supported Go type (objects, actor, 4 collection types): every own property x {set,unset} on `to` x "
                        "{set,unset} on `from` with different values; all ordered property pairs on Object/Actor/OrderedCollectionPage; "
                        "guard cases (nil side, other id, other type, unsupported type); V: %d random pairs with independent property "
                        "subsets; each judged by CopyTrace.tla with MergeOK/MustRefuse of Copy.tla" % nr)
    run.assumptions += ["typed-nil arguments belong to C20", "aliasing vs deep copy of merged values is not examined"]


def replay(run, path):
    d = json.load(open(path))
    ev = d["case"]["event"]
    vlib.write_ndjson(run.path("one.ndjson"), [dict(to=ev["to"], **{"from": ev["from"]})])
    run.vh(["c18-replay", run.path("one.ndjson"), run.path("r_trace.ndjson")])
    judge(run, run.path("r_trace.ndjson"), "replay")
