# C01 -- JSON encode->decode round trip (Vocab/Values/Cases/JsonRT .tla)
import json
import vlib
from props import rtcommon


def check(run):
    thorough = run.tier == "thorough"
    run.tlc_model("JsonRTGen", "rt_model", workers=8, consts={"Tier": '"%s"' % run.tier}, timeout=1800)
    run.tlc_eval("JsonRTGen", "rt_gen", consts={"Gob": "FALSE", "Tier": '"%s"' % run.tier}, timeout=3000)
    cases = run.spec_path("rt_cases.ndjson")
    ncases = sum(1 for _ in open(cases))
    run.vh(["rt", "json", cases, run.path("g_trace.ndjson")])
    n = rtcommon.judge(run, run.path("g_trace.ndjson"), "json-rt", "model cases")
    nr, depth = (12000, 4) if thorough else (1200, 3)
    run.vh(["rt-drive", "json", nr, depth, run.path("v_trace.ndjson")])
    n += rtcommon.judge(run, run.path("v_trace.ndjson"), "json-rt", "random deep values")
    with open(cases) as f:
        for i, l in enumerate(f):
            if i % 1500 == 9:
                run.sample(json.loads(l))
    run.cov.update(evaluations=n, distinct_nontrivial=ncases, exhaustive=True, traces_validated_against_impl=n,
                   rule="V: random values of every Go type with random property subsets nested to depth <=4, judged the same way; G: case families of Cases.tla (OneField: every Go type x own property x value shape; Nested1: every Go type "
                        "embedded in item/list/object/items positions and nested twice; Pairwise on %s; Full; top-level IRI and lists), "
                        "each through ap.MarshalJSON/ap.UnmarshalJSON and T.MarshalJSON/(*T).UnmarshalJSON; decoded value projected by "
                        "reflection and compared by JsonRTTrace.tla with NFItem(input)" % ("all types" if thorough else "Object, Place, Link"))
    from props import lifecommon
    lifecommon.run_life(run, "json", "json-rt")


def replay(run, path):
    d = json.load(open(path))
    ev = d["case"]["event"]
    vlib.write_ndjson(run.path("one.ndjson"), [dict(lab=ev["lab"], v=ev["in"])])
    run.vh(["rt", "json", run.path("one.ndjson"), run.path("r_trace.ndjson")])
    rtcommon.judge(run, run.path("r_trace.ndjson"), "json-rt", "replay")
