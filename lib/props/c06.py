# C06 -- natural-language text survives both codecs byte for byte (Text.tla)
import json
import vlib
from props import textcommon


def keyfn(ev, why):
    return ("text:%s:%s:%s:%s:%s" % (ev["codec"], ev["prop"], ev["form"], textcommon.sym_class(ev["syms"]), why),
            "%s %s (%s) text %s (hex %s) came back as hex %r, tags ok=%s %s" % (ev["codec"], ev["prop"], ev["form"], textcommon.show(ev["syms"]),
                                                                            ev["in"], ev["out"], ev["tagsok"], ev["err"][:100]))


def check(run):
    thorough = run.tier == "thorough"
    run.tlc_model("Text", "text_model", workers=8, consts={"L": 3 if thorough else 2}, timeout=1800)
    strings = textcommon.gen_strings(run, 3, False)
    nstr = sum(1 for _ in open(strings))
    run.vh(["c06-run", strings, run.path("trace.ndjson"), run.path("stats.json"), 2000 if thorough else 400, 3 if thorough else 2], timeout=3000)
    st = json.load(open(run.path("stats.json")))
    n = textcommon.judge(run, run.path("trace.ndjson"), keyfn)
    if st["bad"] and not run.observed:
        raise vlib.Infra("harness saw %d mismatches that TextTrace did not reject" % st["bad"])
    for i, ev in enumerate(vlib.read_ndjson(run.path("trace.ndjson"))):
        if i % 50 == 3:
            run.sample({k: ev[k] for k in ("codec", "prop", "form", "syms", "in", "out")})
    run.cov.update(evaluations=st["evaluations"], distinct_nontrivial=nstr, exhaustive=True, traces_validated_against_impl=n,
                   rule="all strings over the 38-symbol alphabet of Text.tla up to length 3 (%d strings): length<=%d x {name, summary, content, "
                        "preferredUsername, source.content} x {single, tagged, 2- and 3-entry map} x {JSON, gob}; longer ones on content/single "
                        "and a 1/17 rotation of the rest; every disagreement and a sample of agreements judged by TextTrace.tla" % (nstr, 3 if thorough else 2))
    run.assumptions += ["the empty text is the unset normal form and is only used in the single form"]


def replay(run, path):
    d = json.load(open(path))
    ev = d["case"]["event"]
    vlib.write_ndjson(run.path("one.ndjson"), [dict(syms=ev["syms"], hex=ev["in"])])
    run.vh(["c06-run", run.path("one.ndjson"), run.path("r.ndjson"), run.path("s.json"), 1, 9])
    textcommon.judge(run, run.path("r.ndjson"), keyfn)
