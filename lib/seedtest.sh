#!/bin/sh
# usage: seedtest.sh <diff> <check ids...> : applies the diff to a scratch worktree of /repo HEAD and runs the checks against it
diff=$1; shift
[ -d /tmp/mut ] || { git -C /repo worktree add -q --detach /tmp/mut HEAD && cp /repo/go.sum /tmp/mut/ 2>/dev/null; }   # scratch worktree (remove with: git -C /repo worktree remove --force /tmp/mut)
cd /tmp/mut && git checkout -q -- . && git clean -fdq && git checkout -q --detach $(git -C /repo rev-parse HEAD) && git apply "$diff" || { echo "APPLY FAILED $diff"; exit 3; }
cd /verif
for id in "$@"; do
  out=$(VERIF_REPO=/tmp/mut ./check $id 2>&1); rc=$?
  echo "$id rc=$rc $(echo "$out" | grep -c '^VIOLATION') violations; $(echo "$out" | grep -m1 'key=' | cut -c1-220)"
done
cd /tmp/mut && git checkout -q -- . && git clean -fdq
