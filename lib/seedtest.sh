#!/bin/sh
# usage: seedtest.sh <diff> <check ids...> : applies the diff to a scratch worktree of /repo HEAD and runs the checks against it
diff=$1; shift
cd /tmp/mut && git checkout -q -- . && git clean -fdq && git checkout -q --detach $(git -C /repo rev-parse HEAD) && git apply "$diff" || { echo "APPLY FAILED $diff"; exit 3; }
cd /verif
for id in "$@"; do
  out=$(VERIF_REPO=/tmp/mut ./check $id 2>&1); rc=$?
  echo "$id rc=$rc $(echo "$out" | grep -c '^VIOLATION') violations; $(echo "$out" | grep -m1 'key=' | cut -c1-220)"
done
cd /tmp/mut && git checkout -q -- . && git clean -fdq
