#!/usr/bin/env python3
# usage: seedall.py [-j N] [ids...] : runs every stored seeded change (seeded/<ID>-mK/patch.diff) against the check of its property,
# N at a time, each in its own scratch worktree of /repo HEAD (/tmp/mutw<k>, removed afterwards).  A change counts as detected
# when the check exits 1 with a VIOLATION line.  Prints one line per change and a summary; exit 1 if any is missed.
import glob, json, os, subprocess, sys, threading, queue
V = os.path.dirname(os.path.dirname(os.path.abspath(__file__)))
args = sys.argv[1:]
j = 3
if args[:1] == ["-j"]:
    j = int(args[1]); args = args[2:]
dirs = sorted(d for d in glob.glob(os.path.join(V, "seeded", "C??-m*")) if not args or os.path.basename(d).split("-")[0] in args or os.path.basename(d) in args)
head = subprocess.check_output("git -C /repo rev-parse HEAD", shell=True, text=True).strip()
q = queue.Queue()
for d in dirs:
    q.put(d)
res, lock = {}, threading.Lock()
def sh(cmd, **kw):
    return subprocess.run(cmd, shell=True, stdout=subprocess.PIPE, stderr=subprocess.STDOUT, text=True, **kw)
def worker(k):
    wt = "/tmp/mutw%d" % k
    sh("git -C /repo worktree remove --force %s; git -C /repo worktree add -q --detach %s %s && cp /repo/go.sum %s/" % (wt, wt, head, wt))
    while True:
        try:
            d = q.get_nowait()
        except queue.Empty:
            break
        name = os.path.basename(d); pid = name.split("-")[0]
        a = sh("git checkout -q -- . && git clean -fdq -e go.sum && git apply %s/patch.diff" % d, cwd=wt)
        if a.returncode != 0:
            out, rc = "APPLY FAILED " + a.stdout[-200:], 3
        else:
            r = sh("./check %s" % pid, cwd=V, env=dict(os.environ, VERIF_REPO=wt))
            rc = r.returncode
            out = next((l.strip() for l in r.stdout.splitlines() if "key=" in l), r.stdout[-200:].replace("\n", " "))
        with lock:
            res[name] = (rc, out)
            print("%-8s rc=%d %s" % (name, rc, out[:170]), flush=True)
    sh("git -C /repo worktree remove --force %s" % wt)
ts = [threading.Thread(target=worker, args=(k,)) for k in range(j)]
[t.start() for t in ts]; [t.join() for t in ts]
missed = sorted(n for n, (rc, _) in res.items() if rc != 1)
print("%d changes, %d detected, missed: %s" % (len(res), len(res) - len(missed), missed or "none"))
sys.exit(1 if missed else 0)
