#!/usr/bin/env python3-vt
import json, jsonschema, glob, sys
jsonschema.validate(json.load(open('/verif/MANIFEST.json')), json.load(open('/root/.vp/MANIFEST.schema.json')))
es = json.load(open('/root/.vp/EVIDENCE.schema.json'))
for f in sorted(glob.glob('/verif/evidence/*.json')):
    try:
        jsonschema.validate(json.load(open(f)), es)
    except Exception as e:
        print("INVALID", f, str(e)[:300]); sys.exit(1)
print("manifest + %d evidence files valid" % len(glob.glob('/verif/evidence/*.json')))
