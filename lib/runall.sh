#!/bin/sh
# runs every claimed quick check (4 at a time), prints id and exit code
cd "$(dirname "$0")/.." && mkdir -p .work
ids=$(python3 -c "import json;print(' '.join(c['property_id'] for c in json.load(open('MANIFEST.json'))['checks']))")
[ -n "$1" ] && ids="$*"
echo $ids | tr ' ' '\n' | xargs -P 4 -I{} sh -c './check {} --tier ${VERIF_TIER:-quick} > .work/runall-{}.log 2>&1; echo {} rc=$?'
