#!/usr/bin/env python3
# usage: seedconfirm.py <srcdir> <ID> <N> "<detected by>" : confirms a sub-agent mutant in the scratch worktree /tmp/mut and stores it
# under /verif/seeded/<ID>-m<N>/ (patch.diff, demo_test.go, meta.json)
import json, os, shutil, subprocess, sys
src, pid, n, detected = sys.argv[1], sys.argv[2], sys.argv[3], sys.argv[4]
env = dict(os.environ, GOFLAGS="-mod=mod", GOPROXY="off", GOSUMDB="off")
def sh(cmd, cwd="/tmp/mut"):
    return subprocess.run(cmd, cwd=cwd, env=env, shell=True, stdout=subprocess.PIPE, stderr=subprocess.STDOUT, text=True)
head = subprocess.check_output("git -C /repo rev-parse HEAD", shell=True, text=True).strip()
if not os.path.isdir("/tmp/mut"):
    subprocess.run("git -C /repo worktree add -q --detach /tmp/mut HEAD", shell=True)
sh("git checkout -q -- . && git clean -fdq && git checkout -q --detach %s" % head)
shutil.copy("/repo/go.sum", "/tmp/mut/go.sum")
diff, demo = "%s/m%s.diff" % (src, n), "%s/m%s_demo_test.go" % (src, n)
shutil.copy(demo, "/tmp/mut/zz_demo_test.go")
r0 = sh("go test -vet=off -count=1 -run 'Demo' . 2>&1 | tail -3")
pristine_pass = "ok" in r0.stdout and "FAIL" not in r0.stdout
r = sh("git apply %s" % diff)
if r.returncode != 0:
    print("apply failed", r.stdout); sys.exit(1)
rb = sh("go build ./... 2>&1 | tail -3")
r1 = sh("go test -vet=off -count=1 -run 'Demo' . 2>&1 | tail -3")
mutant_fail = "FAIL" in r1.stdout
os.remove("/tmp/mut/zz_demo_test.go")
rbase = subprocess.run(["/verif/lib/baseline.py", "/tmp/mut"], env=env, stdout=subprocess.PIPE, stderr=subprocess.STDOUT, text=True)
suite_ok = rbase.returncode == 0
sh("git checkout -q -- . && git clean -fdq")
ok = pristine_pass and mutant_fail and suite_ok and rb.returncode == 0
print(pid, n, "pristine demo passes:", pristine_pass, "| mutant demo fails:", mutant_fail, "| suite ok:", suite_ok, "|", rbase.stdout.strip().splitlines()[0])
if not ok:
    sys.exit(1)
dst = "/verif/seeded/%s-m%s" % (pid, n)
os.makedirs(dst, exist_ok=True)
shutil.copy(diff, dst + "/patch.diff")
shutil.copy(demo, dst + "/demo_test.go")
notes = open("%s/m%s.md" % (src, n)).read().strip()
json.dump(dict(property=pid, base_commit=head, needs=notes, detected_by=detected,
               confirmed=dict(compiles=True, suite="all BASELINE stable_pass tests pass with the patch (lib/baseline.py)",
                              demo="fails with the patch, passes without (go test -run Demo in a scratch worktree)"),
               ran=["git apply patch.diff (scratch worktree of /repo HEAD)", "go build ./...", "lib/baseline.py <worktree>",
                    "go test -run Demo .", "lib/seedtest.sh patch.diff %s" % pid]),
          open(dst + "/meta.json", "w"), indent=1)
