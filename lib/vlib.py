# Common machinery for the /verif checks: TLC runner, Go harness builder, finding matcher,
# evidence writer.  Every property module (lib/props/cNN.py) uses a Run object.
import json, os, re, shutil, subprocess, sys, time, hashlib

VERIF = os.path.dirname(os.path.dirname(os.path.abspath(__file__)))
REPO = os.environ.get("VERIF_REPO", "/repo")
SPEC = os.path.join(VERIF, "spec")
HARNESS = os.path.join(VERIF, "harness")
GOENV = dict(os.environ, GOFLAGS="-mod=mod", GOPROXY="off", GOSUMDB="off", GOTOOLCHAIN="local",
             CGO_ENABLED=os.environ.get("CGO_ENABLED", "1"))
NCPU = os.cpu_count() or 4


class Infra(Exception):
    """Infrastructure failure (tool crash, timeout, spec bug): exit 2, never a verdict."""


def sh(cmd, cwd=None, env=None, timeout=None, check=False, input=None):
    p = subprocess.run(cmd, cwd=cwd, env=env, timeout=timeout, input=input,
                       stdout=subprocess.PIPE, stderr=subprocess.STDOUT, text=True)
    if check and p.returncode != 0:
        raise Infra("command failed (%d): %s\n%s" % (p.returncode, " ".join(cmd), p.stdout[-4000:]))
    return p


class TLCResult:
    def __init__(self, out, rc):
        self.out, self.rc = out, rc
        self.generated = self.distinct = 0
        m = re.search(r"(\d+) states generated, (\d+) distinct states found", out)
        if m:
            self.generated, self.distinct = int(m.group(1)), int(m.group(2))
        self.ok = rc == 0 and "Model checking completed. No error has been found." in out or \
            (rc == 0 and "Finished in" in out and "Error:" not in out)
        self.lines = []
        for l in out.splitlines():
            if l.startswith("@@ "):
                self.lines.append(l[3:])
            elif l.startswith('"@@ '):      # PrintT of a TLA+ string: quoted and escaped
                try:
                    self.lines.append(json.loads(l)[3:])
                except Exception:
                    self.lines.append(l[4:-1].replace('\\"', '"').replace('\\\\', '\\'))

    def json_lines(self):
        return [json.loads(l) for l in self.lines]


class Run:
    def __init__(self, pid, tier, seed):
        self.pid, self.tier, self.seed = pid, tier, seed
        self.t0 = time.time()
        self.work = os.path.join(VERIF, ".work", "%s-%d" % (pid, os.getpid()))
        shutil.rmtree(self.work, ignore_errors=True)
        os.makedirs(self.work)
        self.specdir = os.path.join(self.work, "spec")
        shutil.copytree(SPEC, self.specdir)
        self.cov = dict(states=0, transitions=0, traces_validated_against_impl=0, evaluations=0,
                        distinct_nontrivial=0, samples=[], rule="", exhaustive=False, checker_cmd="",
                        models=[])
        self.assumptions = []
        self.observed = []   # list of (key, what, case)
        self._bin = None
        self.known = load_known()

    # ---------------------------------------------------------------- TLC
    def tlc(self, module, cfg, workers=1, timeout=600, extra=(), consts=None, simulate=None, heap=None):
        """Run TLC on spec/<module>.tla with spec/cfg/<cfg>.cfg inside the scratch copy."""
        cfgpath = os.path.join(self.specdir, "cfg", cfg + ".cfg")
        if consts is not None:     # generated cfg: base text + constant overrides
            with open(cfgpath) as f:
                txt = f.read()
            for k, v in consts.items():
                if isinstance(v, str) and v.startswith(k + " <-"):
                    txt = re.sub(r"(?m)^(\s*)%s\s*(=|<-).*$" % re.escape(k), lambda m: m.group(1) + v, txt)
                else:
                    txt = re.sub(r"(?m)^(\s*%s\s*=\s*).*$" % re.escape(k), lambda m: m.group(1) + str(v), txt)
            cfgpath = os.path.join(self.specdir, "cfg", cfg + ".gen.cfg")
            with open(cfgpath, "w") as f:
                f.write(txt)
        meta = os.path.join(self.work, "md-%s-%d" % (cfg, int(time.time() * 1000) % 100000000))
        cmd = ["java", "-XX:+UseParallelGC", "-XX:ParallelGCThreads=4", "-Xss512m"]
        if heap:
            cmd.append("-Xmx" + heap)
        cmd += ["-cp", "/opt/veriftools/tla/tla2tools.jar:/opt/veriftools/tla/CommunityModules-deps.jar",
                "tlc2.TLC", "-metadir", meta, "-workers", str(workers), "-config", cfgpath]
        if simulate:
            cmd += ["-simulate", simulate]
        cmd += list(extra) + [module + ".tla"]
        self.cov["checker_cmd"] = "tlc -workers %s -config cfg/%s.cfg %s %s.tla" % (
            workers, cfg, ("-simulate " + simulate) if simulate else "", module)
        try:
            p = sh(cmd, cwd=self.specdir, timeout=timeout)
        except subprocess.TimeoutExpired:
            raise Infra("TLC timeout on %s/%s" % (module, cfg))
        shutil.rmtree(meta, ignore_errors=True)
        r = TLCResult(p.stdout, p.returncode)
        return r

    def tlc_model(self, module, cfg, **kw):
        """Leg M: exhaustive check of the design; failure is a spec bug => Infra."""
        r = self.tlc(module, cfg, **kw)
        if not r.ok:
            raise Infra("model check %s/%s failed (spec bug, not a verdict):\n%s" % (module, cfg, (r.out[:1500] + "\n...\n" + r.out[-1500:]) if len(r.out) > 3000 else r.out))
        self.cov["states"] += r.distinct
        self.cov["transitions"] += r.generated
        self.cov["models"].append(dict(module=module, cfg=cfg, distinct=r.distinct, generated=r.generated))
        return r

    def tlc_eval(self, module, cfg, **kw):
        """Generation / judging run (ASSUME-driven or trace spec); must end without TLC error."""
        r = self.tlc(module, cfg, **kw)
        if not r.ok:
            ls = r.out.splitlines()
            errs = [" | ".join(x[:600] for x in ls[i:i + 6]) for i, x in enumerate(ls) if x.startswith("Error")][:3]
            raise Infra("TLC run %s/%s failed:\n%s\n...\n%s" % (module, cfg, "\n".join(errs), r.out[-2000:]))
        return r

    def spec_path(self, name):
        return os.path.join(self.specdir, name)

    # ---------------------------------------------------------------- Go harness
    def build(self, race=False, checkptr=False, tags="verif"):
        out = os.path.join(self.work, "vh" + ("-race" if race else "") + ("-cp" if checkptr else ""))
        modfile = os.path.join(self.work, "go.mod")
        if not os.path.exists(modfile):
            with open(os.path.join(HARNESS, "go.mod")) as f:
                txt = f.read()
            txt = txt.replace("=> /repo", "=> " + REPO)
            with open(modfile, "w") as f:
                f.write(txt)
            for cand in (os.path.join(REPO, "go.sum"), "/repo/go.sum", os.path.join(HARNESS, "go.sum")):
                if os.path.exists(cand):
                    shutil.copy(cand, os.path.join(self.work, "go.sum"))
                    break
        cmd = ["go", "build", "-modfile", modfile, "-tags", tags, "-o", out]
        if race:
            cmd.append("-race")
        if checkptr:
            cmd.append("-gcflags=all=-d=checkptr")
        cmd.append(".")
        p = sh(cmd, cwd=HARNESS, env=GOENV, timeout=900)
        if p.returncode != 0:
            raise Infra("harness build failed against %s:\n%s" % (REPO, p.stdout[-4000:]))
        return out

    def vh(self, args, timeout=900, binary=None, env=None, ok_codes=(0,)):
        if binary is None:
            if self._bin is None:
                self._bin = self.build()
            binary = self._bin
        e = dict(GOENV)
        e["VERIF_SEED"] = str(self.seed)
        if env:
            e.update(env)
        try:
            p = sh([binary] + [str(a) for a in args], cwd=self.work, env=e, timeout=timeout)
        except subprocess.TimeoutExpired:
            raise Infra("harness timeout: %s" % " ".join(map(str, args)))
        if p.returncode not in ok_codes:
            raise Infra("harness failed (%d): %s\n%s" % (p.returncode, " ".join(map(str, args)), p.stdout[-4000:]))
        return p

    def path(self, name):
        return os.path.join(self.work, name)

    # ---------------------------------------------------------------- findings
    def observe(self, key, what, case=None):
        self.observed.append((key, what, case))

    def note(self, key, what):
        """A mismatch in behaviour the specification covers BEYOND the listed properties: reported, never a verdict."""
        if not hasattr(self, "notes"):
            self.notes = {}
        if key not in self.notes:
            print("OBSERVATION property=%s (outside the property's statement, not a verdict) %s %s" % (self.pid, key, str(what)[:300]))
        self.notes[key] = self.notes.get(key, 0) + 1

    def finish(self, level="model_checking"):
        pid = self.pid
        bykey = {}
        for key, what, case in self.observed:
            bykey.setdefault(key, []).append((what, case))
        known = {k["key"]: k for k in self.known if k["property"] == pid and k.get("status") == "known"}
        nviol = 0
        for key in sorted(bykey):
            what, case = bykey[key][0]
            if key in known:
                print("KNOWN-FINDING: property=%s %s %s (x%d)" % (pid, key, known[key].get("what", what), len(bykey[key])))
                continue
            os.makedirs(os.path.join(VERIF, "replays"), exist_ok=True)
            h = hashlib.sha1(key.encode()).hexdigest()[:10]
            rp = os.path.join(VERIF, "replays", "%s-%s.json" % (pid, h))
            with open(rp, "w") as f:
                json.dump(dict(property=pid, key=key, what=what, case=case, count=len(bykey[key]),
                               tier=self.tier, seed=self.seed), f, indent=1, default=str)
            nviol += 1
            if nviol <= 12:
                print("VIOLATION property=%s replay=%s" % (pid, rp))
                print("  key=%s %s (x%d)" % (key, str(what)[:600], len(bykey[key])))
        if nviol > 12:
            print("  ... and %d more violation keys (replay files under %s)" % (nviol - 12, os.path.join(VERIF, "replays")))
        if not getattr(self, "replay_mode", False) and os.path.realpath(REPO) == "/repo":      # runs against a scratch copy leave no evidence
            self.write_evidence(level, nviol, sorted(k for k in bykey if k in known))
        shutil.rmtree(self.work, ignore_errors=True)
        return 1 if nviol else 0

    def write_evidence(self, level, nviol, known_seen):
        cov = dict(self.cov)
        cov["samples"] = cov["samples"][:6] or ["(none)"]
        if cov["states"] < 1:
            cov.pop("states"); cov.pop("transitions")
        cov["known_findings_observed"] = known_seen
        cov["observations_outside_statement"] = getattr(self, "notes", {})
        ev = dict(property_id=self.pid, tier=self.tier, seed=self.seed, level=level, coverage=cov,
                  assumptions=self.assumptions, wall_s=round(time.time() - self.t0, 2), violations=nviol)
        os.makedirs(os.path.join(VERIF, "evidence"), exist_ok=True)
        with open(os.path.join(VERIF, "evidence", self.pid + ".json"), "w") as f:
            json.dump(ev, f, indent=1, default=str)

    def sample(self, x):
        if len(self.cov["samples"]) < 6:
            self.cov["samples"].append(x)


def load_known():
    p = os.path.join(VERIF, "known_findings.json")
    if not os.path.exists(p):
        return []
    with open(p) as f:
        return json.load(f).get("findings", [])


def read_ndjson(path):
    out = []
    with open(path) as f:
        for l in f:
            l = l.strip()
            if l:
                out.append(json.loads(l))
    return out


def write_ndjson(path, rows):
    with open(path, "w") as f:
        for r in rows:
            f.write(json.dumps(r, separators=(",", ":")) + "\n")
