#!/bin/sh
# usage: fixcommit.sh "<message>"  -- builds, runs the baseline comparison, commits tracked changes in /repo
cd /repo && gofmt -l . | grep -v '^tests/' ; go build ./... && /verif/lib/baseline.py && git commit -qam "$1" && git log --oneline | head -1
