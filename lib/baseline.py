#!/usr/bin/env python3
# Runs the repository's test suite (guard off) and compares with /root/.vp/BASELINE.json stable_pass.
import json, subprocess, sys, os
repo = sys.argv[1] if len(sys.argv) > 1 else "/repo"
base = json.load(open("/root/.vp/BASELINE.json"))
env = dict(os.environ, GOFLAGS="-mod=mod", GOPROXY="off", GOSUMDB="off")
passed, failed = set(), set()
for d in (repo, os.path.join(repo, "tests")):
    p = subprocess.run(["go", "test", "-json", "-vet=off", "-count=1", "./..."], cwd=d, env=env, stdout=subprocess.PIPE, stderr=subprocess.STDOUT, text=True)
    for l in p.stdout.splitlines():
        try:
            e = json.loads(l)
        except Exception:
            continue
        if e.get("Test") and e.get("Action") in ("pass", "fail"):
            (passed if e["Action"] == "pass" else failed).add(e["Package"] + "::" + e["Test"])
missing = [t for t in base["stable_pass"] if t not in passed]
print("passed=%d failed=%d baseline=%d missing_from_pass=%d" % (len(passed), len(failed), len(base["stable_pass"]), len(missing)))
for t in missing[:20]:
    print("  NOT PASSING:", t)
unexpected = sorted(failed - set(base.get("always_fail", [])))
for t in unexpected[:20]:
    print("  FAILED:", t)
sys.exit(1 if missing or unexpected else 0)
