----------------------------- MODULE FlattenGen -----------------------------
(* Leg G for C16: roots x flattened positions x child shapes, lists with duplicates. *)
EXTENDS Flatten, Json, IOUtils, SequencesExt, FiniteSetsExt
Roots == {"Activity", "IntransitiveActivity", "Question", "Object", "Actor", "Place"}
ObjVal == With(BaseV("Object", 31), "content", Nlv(<<LR(NilTag, "c")>>))
ObjValue == [ObjVal EXCEPT !.ptr = FALSE]
ActorVal == Person1
IdlessUrl == Obj("Object", [name |-> Nlv(<<LR(NilTag, "no id")>>), url |-> Iri(Base \o "pages/1"), type |-> Str("Page")])
IdlessActor == Obj("Actor", [type |-> Str("Person"), inbox |-> Iri(Base \o "inbox/x"), url |-> Iri(Base \o "profile/x"), preferredUsername |-> Nlv(<<LR(NilTag, "x")>>)])
ObjVal2 == With(ObjVal, "summary", Nlv(<<LR(NilTag, "same id, other content")>>))
ObjValHttp == With(ObjVal, "id", Str("http://example.com/Object/31"))
Children == { <<"idless-url", IdlessUrl>>, <<"idless-actor", IdlessActor>>, <<"iri", I1>>, <<"object", ObjVal>>, <<"object-value", ObjValue>>, <<"actor", ActorVal>>, <<"idless", Untyped>>, <<"link", Link1>>,
              <<"link-with-id", With(Link1, "id", Str(Base \o "links/1"))>>, <<"activity", Embedded("Activity", 32)>>,
              <<"collection", Embedded("OrderedCollection", 33)>>, <<"place", Embedded("Place", 34)>> }
Single == UNION {{Case("flat", g, t, ch[1], With(BaseV(g, 1), t, ch[2])) : ch \in Children} : g \in Roots, t \in FlatPos("Activity")} 
SingleOK == {c \in Single : c.lab.t \in FlatPos(c.lab.g)}
ListChildren == {I1, I2, ObjVal, ObjVal2, ObjValHttp, IdlessUrl, IdlessActor, ActorVal, Untyped, Link1, With(Link1, "id", Str(Base \o "links/1")), Iri(ObjVal.p.id.s)}
Lists2 == {<<a, b>> : a \in ListChildren, b \in ListChildren} \cup {<<a, b, a>> : a \in {I1, ObjVal, ActorVal}, b \in ListChildren}
          \cup {<<ObjVal, I2, ObjVal2>>, <<ObjVal, ObjValHttp, I1>>, <<ObjVal2, ObjVal, ObjVal2>>}
ListCases == UNION {{Case("flat", g, t, "list", With(BaseV(g, 1), t, ListOf(l))) : l \in Lists2} : g \in {"Activity", "Object", "Actor"}, t \in FlatLists}
\* frame: a non-flattened property holding an embedded object must stay
FrameCases == {Case("flat", g, t, "frame", With(With(BaseV(g, 1), t, ObjVal), "attributedTo", ActorVal))
               : g \in Roots, t \in {"attachment", "inReplyTo", "icon", "context", "generator", "location", "url", "preview", "image"}}
               \cup {Case("flat", g, "tag", "frame", With(BaseV(g, 1), "tag", ListOf(<<ObjVal, I1>>))) : g \in Roots}
\* roots that have no id themselves
NoId(v) == [v EXCEPT !.p = Restrict(@, DOMAIN @ \ {"id"})]
IdlessRoots == {Case("flat", c.lab.g, c.lab.t, "idless-root:" \o c.lab.shape, NoId(c.v)) : c \in {d \in SingleOK : d.lab.shape \in {"object", "actor", "iri", "idless"}}}
               \cup {Case("flat", g, "to", "idless-root:list", NoId(With(BaseV(g, 1), "to", ListOf(<<ObjVal, I1, ActorVal>>)))) : g \in {"Activity", "Object", "Actor"}}
\* the same addressee in SEVERAL addressing lists: each list is flattened on its own, nothing moves or disappears between lists
CrossLists == {Case("flat", g, "to+cc+bcc+audience", "cross-lists",
                    With(With(With(With(BaseV(g, 1), "to", ListOf(<<ObjVal, I1>>)), "cc", ListOf(<<I1, ActorVal, Iri(ObjVal.p.id.s)>>)),
                              "bcc", ListOf(<<ActorVal, I2, ObjVal2>>)), "audience", ListOf(<<I1, ActorVal>>)))
               : g \in {"Activity", "Object", "Actor", "Question"}}
\* roots typed with the generic names (Object, Activity, IntransitiveActivity are ActivityStreams core types; Actor is the library's)
GenericRoots == {Case("flat", c.lab.g, c.lab.t, "generic-root:" \o c.lab.shape, With(c.v, "type", Str(c.lab.g)))
                 : c \in {d \in SingleOK : d.lab.shape \in {"object", "actor", "iri", "link"} /\ d.lab.g \in {"Object", "Activity", "IntransitiveActivity", "Actor"}}}
                \cup {Case("flat", g, "to", "generic-root:list", With(With(BaseV(g, 1), "type", Str(g)), "to", ListOf(<<ObjVal, I1, ActorVal>>))) : g \in {"Object", "Activity", "Actor"}}
\* roots without a type: the struct says what they are
UntypedRoots == {Case("flat", c.lab.g, c.lab.t, "untyped-root:" \o c.lab.shape, [c.v EXCEPT !.p = Restrict(@, DOMAIN @ \ {"type"})])
                 : c \in {d \in SingleOK : d.lab.shape \in {"object", "actor"} /\ d.lab.g \in {"Activity", "IntransitiveActivity", "Question", "Actor"}}}
AllFlat == UntypedRoots \cup GenericRoots \cup SingleOK \cup ListCases \cup FrameCases \cup IdlessRoots \cup CrossLists
GenInit == orig = NilItem /\ val = NilItem /\ phase = "gen"
GenNext == FALSE /\ UNCHANGED vars
ASSUME ndJsonSerialize("c16_cases.ndjson", SetToSeq(AllFlat))
=============================================================================
