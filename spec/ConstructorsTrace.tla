------------------------- MODULE ConstructorsTrace -------------------------
(* Events: {"ev":"new","c":..,"typ":..,"res":{g,type,idok,extra:[terms]},"known":B} *)
EXTENDS Constructors, Json, IOUtils
VARIABLES l, bad, done
Tr == ndJsonDeserialize("ctor_trace.ndjson")
Chunk == 200
Expect(ev) == IF \E k \in Generic : k.c = ev.c THEN GenericReply(CHOOSE k \in Generic : k.c = ev.c, ev.typ)
              ELSE TypedReply(CHOOSE k \in Typed : k.c = ev.c)
Why(ev) ==
  IF ~ev.known THEN <<"constructor-missing">>
  ELSE LET e == Expect(ev) IN
       (IF ev.res.g = e.g THEN <<>> ELSE <<"struct:" \o e.g \o "->" \o ev.res.g>>)
       \o (IF ev.res.type = e.type THEN <<>> ELSE <<"type:" \o e.type \o "->" \o ev.res.type>>)
       \o (IF ev.res.idok THEN <<>> ELSE <<"id-not-carried">>)
       \o (IF ev.res.extra = <<>> THEN <<>> ELSE <<"sets:" \o ev.res.extra[1]>>)
INSTANCE EventJudge
TraceSpec == JInit /\ CInit /\ [][(JStep \/ JFinish) /\ UNCHANGED cvars]_<<jvars, cvars>>
=============================================================================
