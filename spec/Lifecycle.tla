------------------------------ MODULE Lifecycle ------------------------------
(***************************************************************************)
(* Composition of the value-level specifications: one value goes through   *)
(* a history of operations -- flatten, clean, JSON round trip, gob round   *)
(* trip -- and every step must be the step the corresponding module        *)
(* specifies (Flatten!FlatV, Clean!CleanV, Values!NFItem, Values!GFItem).  *)
(* TLC checks on the model that the operations compose the way a user      *)
(* relies on: cleaning commutes with both codecs, nothing leaks after a    *)
(* clean however it is interleaved with the others, flattening twice is    *)
(* flattening once even with codecs in between, and no IRI is invented by  *)
(* any history.                                                            *)
(***************************************************************************)
EXTENDS Cases

CONSTANTS Universe, MaxLen
VARIABLES orig, val, phase, hist
F == INSTANCE Flatten
C == INSTANCE Clean

LOps == {"flatten", "clean", "json", "gob"}
Apply(op, v) == CASE op = "flatten" -> F!FlatV(v)
                  [] op = "clean" -> C!CleanV(v)
                  [] op = "json" -> NFItem(v)
                  [] op = "gob" -> GFItem(v)

lvars == <<orig, val, phase, hist>>
LInit == \E c \in Universe : orig = c.v /\ val = c.v /\ phase = "life" /\ hist = <<>>
Do(op) == Len(hist) < MaxLen /\ val' = Apply(op, val) /\ hist' = Append(hist, op) /\ UNCHANGED <<orig, phase>>
LNext == \E op \in LOps : Do(op)
LSpec == LInit /\ [][LNext]_lvars

Did(op) == \E i \in 1..Len(hist) : hist[i] = op
LastIs(op) == hist # <<>> /\ hist[Len(hist)] = op
\* cleaning commutes with the codecs
CleanCommutes == C!CleanV(NFItem(val)) = NFItem(C!CleanV(val)) /\ C!CleanV(GFItem(val)) = GFItem(C!CleanV(val))
\* once cleaned, nothing private comes back along the walk, whatever follows
StaysClean == Did("clean") => C!Leaks(val) = {}
\* flattening is idempotent across codecs
FlatStable == LastIs("flatten") => F!FlatV(NFItem(val)) = NFItem(val)
NoInvention == F!IrisOf(val) \subseteq F!IrisOf(orig)
=============================================================================
