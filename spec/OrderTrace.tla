----------------------------- MODULE OrderTrace -----------------------------
(* Leg V for C17.  Events:                                                    *)
(*  {"ev":"less","a":item,"b":item,"res":BOOLEAN|"panic", ...presentation}     *)
(*  {"ev":"sort","in":[items],"out":[items]}                                   *)
EXTENDS Order, Json, IOUtils

VARIABLES l, bad, done
Tr == ndJsonDeserialize("c17_trace.ndjson")
Chunk == 500

Why(ev) ==
  IF ev.ev = "less" THEN
     IF ev.res = [k |-> "bool", b |-> Less(ev.a, ev.b)] THEN <<>>
     ELSE IF ev.res.k # "bool" THEN <<ev.res.k>>
     ELSE IF ev.a = ev.b THEN <<"reflexive">>
     ELSE IF ev.a.k = "nil" \/ ev.b.k = "nil" THEN <<"nil-rank">>
     ELSE <<"wrong-order">>
  ELSE IF ev.ev = "sort" THEN
     (IF Bag(ev.in) = Bag(ev.out) THEN <<>> ELSE <<"sort-not-a-permutation">>)
     \o (IF Sorted(ev.out) /\ NewestFirst(ev.out) THEN <<>> ELSE <<"sort-not-newest-first">>)
  ELSE <<"unknown-event">>

INSTANCE EventJudge
TraceSpec == JInit /\ xs = <<>> /\ orig = <<>>
             /\ [][(JStep \/ JFinish) /\ UNCHANGED vars]_<<jvars, vars>>
=============================================================================
