----------------------------- MODULE CopyTrace -----------------------------
(* Leg V for C18.  Events: {"ev":"copy","to":v,"from":v,"post_to":v,"post_from":v,"err":BOOLEAN,"panic":BOOLEAN} *)
EXTENDS Copy, Json, IOUtils
VARIABLES l, bad, done
Tr == ndJsonDeserialize("c18_trace.ndjson")
Chunk == 100
PM(v) == IF v.k = "obj" THEN v.p ELSE <<>>
Why(ev) ==
  IF ev.panic THEN <<[t |-> "*", sym |-> "panic"]>>
  ELSE IF ev.post_from # ev.from THEN <<[t |-> "*", sym |-> "from-modified"]>>
  ELSE IF MustRefuse(ev.to, ev.from) THEN
       (IF ev.err THEN <<>> ELSE <<[t |-> "*", sym |-> "guard-not-refused"]>>)
       \o (IF ev.post_to = ev.to THEN <<>> ELSE <<[t |-> "*", sym |-> "to-touched-on-refusal"]>>)
  ELSE IF ev.err THEN <<[t |-> "*", sym |-> "valid-merge-refused"]>>
  ELSE LET w == MergeWhy(PM(ev.to), PM(ev.from), PM(ev.post_to)) IN
       IF w = {} THEN <<>> ELSE <<CHOOSE x \in w : TRUE>>
INSTANCE EventJudge
TraceSpec == JInit /\ mto = <<>> /\ mfrom = <<>> /\ phase = "judge"
             /\ [][(JStep \/ JFinish) /\ UNCHANGED vars]_<<jvars, vars>>
=============================================================================
