-------------------------------- MODULE Pages --------------------------------
(***************************************************************************)
(* Growth beyond the listed properties: the page constructors.             *)
(* CollectionPageNew(parent) / OrderedCollectionPageNew(parent) yield a    *)
(* page of the matching kind whose partOf is the parent's id and which     *)
(* carries the parent's descriptive, addressing and paging properties --   *)
(* everything of the object core except id, likes, shares and source, plus *)
(* totalItems, the members, current and first -- and nothing else.  A      *)
(* parent of the OTHER collection kind gives a bare page (type, partOf).   *)
(* The machine below is the paging protocol a server performs: make the    *)
(* first page of a collection, then a page of that page's parent again;    *)
(* TLC checks that paging never invents or loses a copied property.        *)
(***************************************************************************)
EXTENDS Cases

NotCopied == {"id", "likes", "shares", "source"}
CopiedTerms(kind) == (Terms(ObjectProps) \ NotCopied) \cup {"totalItems", "current", "first", IF kind = "CollectionPage" THEN "items" ELSE "orderedItems"}
ParentKind(kind) == IF kind = "CollectionPage" THEN "Collection" ELSE "OrderedCollection"
PageOf(kind, parent) ==
  LET link == IF "id" \in DOMAIN parent.p THEN Iri(parent.p.id.s) ELSE Iri("")
      keep == IF parent.g = ParentKind(kind) THEN (DOMAIN parent.p \cap CopiedTerms(kind)) \ {"type"} ELSE {}
  IN Obj(kind, [t \in keep \cup {"type", "partOf"} |-> CASE t = "type" -> Str(kind) [] t = "partOf" -> link [] OTHER -> parent.p[t]])

VARIABLES parent, page
pvars == <<parent, page>>
Parents == {c.v : c \in {x \in OneField(FALSE) \cup Full(FALSE) : x.lab.g \in {"Collection", "OrderedCollection"}}}
PInit == parent \in Parents /\ page = NilItem
MakePage(kind) == page = NilItem /\ page' = PageOf(kind, parent) /\ UNCHANGED parent
PNext == \E kind \in {"CollectionPage", "OrderedCollectionPage"} : MakePage(kind)
PSpec == PInit /\ [][PNext]_pvars
\* what paging guarantees
PartOfParent == page # NilItem => page.p.partOf = Iri(parent.p.id.s)
NothingInvented == page # NilItem => \A t \in DOMAIN page.p \ {"type", "partOf"} : t \in DOMAIN parent.p /\ page.p[t] = parent.p[t]
NothingLost == (page # NilItem /\ parent.g = ParentKind(page.g)) => \A t \in (DOMAIN parent.p \cap CopiedTerms(page.g)) \ {"type"} : t \in DOMAIN page.p
IdNotCopied == page # NilItem => "id" \notin DOMAIN page.p
=============================================================================
