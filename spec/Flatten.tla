------------------------------- MODULE Flatten -------------------------------
(***************************************************************************)
(* C16 -- flattening replaces embedded items by their own ids and nothing  *)
(* else.  FlatV is the specified result wherever the property fixes it;    *)
(* FlattenOK is the relation the real outcome must satisfy (it leaves the  *)
(* not-demanded parts -- embedded collections, duplicate addressees --     *)
(* open, constraining them only by "no IRI is invented").                  *)
(***************************************************************************)
EXTENDS Cases

CollGoTypes == {"Collection", "CollectionPage", "OrderedCollection", "OrderedCollectionPage"}
ObjFlatPos == {"attributedTo", "replies", "likes", "shares"}
IntrFlatPos == {"actor", "target", "result", "origin", "instrument"}
FlatPos(g) == ObjFlatPos \cup (IF g \in {"Activity", "IntransitiveActivity", "Question"} THEN IntrFlatPos ELSE {})
                         \cup (IF g = "Activity" THEN {"object"} ELSE {})
FlatLists == {"to", "bto", "cc", "bcc", "audience"}

HasId(x) == x.k = "obj" /\ "id" \in DOMAIN x.p
IdIri(x) == Iri(x.p.id.s)
\* single positions: embedded NON-collection objects with an id
Flattenable(x) == HasId(x) /\ x.g \notin CollGoTypes \cup {"Link"}
FlatItem(x) == IF Flattenable(x) THEN IdIri(x) ELSE x
\* addressing lists: every addressee with an id (links stay as they are)
FlatEntry(x) == IF HasId(x) /\ x.g # "Link" THEN IdIri(x) ELSE x
Demanded(x) == x.k \in {"iri"} \/ (x.k = "obj" /\ x.g \notin CollGoTypes)      \* what the property speaks about in single positions

FlatP(g, p) == [t \in DOMAIN p |->
                  IF t \in FlatPos(g) /\ Demanded(p[t]) THEN FlatItem(p[t])
                  ELSE IF t \in FlatLists THEN ListOf([i \in 1..Len(p[t].e) |-> FlatEntry(p[t].e[i])])
                  ELSE p[t]]
FlatV(v) == IF v.k = "obj" THEN [v EXCEPT !.p = FlatP(v.g, v.p)] ELSE v

\* ---- every IRI or id occurring in a value ----------------------------------
RECURSIVE IrisOf(_), IrisOfMap(_)
IrisOf(x) ==
  CASE x.k = "iri" -> {x.iri}
    [] x.k = "iris" -> {x.e[i] : i \in 1..Len(x.e)}
    [] x.k = "list" -> UNION {IrisOf(x.e[i]) : i \in 1..Len(x.e)}
    [] x.k = "obj" -> IrisOfMap(x.p) \cup (IF "id" \in DOMAIN x.p THEN {x.p.id.s} ELSE {})
    [] x.k \in {"source", "endpoints", "pubkey"} -> IrisOfMap(x.p)
    [] OTHER -> {}
IrisOfMap(p) == UNION {IrisOf(p[t]) : t \in DOMAIN p}

\* first-occurrence sequence of a list (duplicates are not part of the demand).  Identity of an entry = its IRI / id up to
\* IRI equivalence ignoring scheme; the equivalent presentations used by the cases are tabulated in IdKey.
IdKey(s) == CASE s = "http://example.com/Object/31" -> "https://example.com/Object/31" [] OTHER -> s
KeyOf(x) == IF x.k = "iri" THEN [k |-> "id", s |-> IdKey(x.iri)]
            ELSE IF x.k = "obj" /\ "id" \in DOMAIN x.p THEN [k |-> "id", s |-> IdKey(x.p.id.s), emb |-> TRUE]
            ELSE x
SameWho(a, b) == (a.k = "id" /\ b.k = "id" /\ a.s = b.s) \/ a = b
RECURSIVE Dedup(_, _, _)
Dedup(s, i, acc) == IF i > Len(s) THEN acc
                    ELSE IF \E k \in 1..Len(acc) : SameWho(KeyOf(acc[k]), KeyOf(s[i])) THEN Dedup(s, i + 1, acc) ELSE Dedup(s, i + 1, Append(acc, s[i]))
FirstOcc(l) == Dedup(l.e, 1, <<>>)
SameSeqUpToIri(a, b) == Len(a) = Len(b) /\ \A i \in 1..Len(a) : a[i] = b[i] \/ (a[i].k = "iri" /\ b[i].k = "iri" /\ IdKey(a[i].iri) = IdKey(b[i].iri))

\* ---- the relation -----------------------------------------------------------
TermWhy(g, pre, post, t) ==
  IF t \notin DOMAIN post THEN (IF t \in DOMAIN pre /\ ~(t \in FlatPos(g) /\ ~Demanded(pre[t])) THEN {"dropped"} ELSE {})
  ELSE IF t \notin DOMAIN pre THEN {"invented-property"}
  ELSE IF t \in FlatPos(g) THEN
         IF Demanded(pre[t]) THEN (IF post[t] = FlatItem(pre[t]) THEN {}
                                   ELSE IF Flattenable(pre[t]) THEN {"not-flattened"} ELSE {"must-stay"})
         ELSE (IF IrisOf(post[t]) \subseteq IrisOf(pre[t]) THEN {} ELSE {"invented-iri"})
  ELSE IF t \in FlatLists THEN
         IF post[t].k # "list" THEN {"not-a-list"}
         ELSE IF SameSeqUpToIri(FirstOcc(post[t]), FirstOcc(ListOf([i \in 1..Len(pre[t].e) |-> FlatEntry(pre[t].e[i])]))) THEN {} ELSE {"addressees-changed"}
  ELSE IF post[t] = pre[t] THEN {} ELSE {"frame"}

FlattenWhy(pre, post) ==
  IF pre.k # "obj" \/ post.k # "obj" \/ pre.g # post.g THEN {[t |-> "*", sym |-> "shape"]}
  ELSE UNION {{[t |-> t, sym |-> s] : s \in TermWhy(pre.g, pre.p, post.p, t)} : t \in DOMAIN pre.p \cup DOMAIN post.p}
       \cup (IF IrisOf(post) \subseteq IrisOf(pre) THEN {} ELSE {[t |-> "*", sym |-> "invented-iri"]})

-----------------------------------------------------------------------------
CONSTANT Universe
VARIABLES orig, val, phase
vars == <<orig, val, phase>>
Init == \E c \in Universe : orig = c.v /\ val = c.v /\ phase = "orig"
FlattenAct == /\ phase \in {"orig", "flat1"} /\ val' = FlatV(val)
              /\ phase' = (IF phase = "orig" THEN "flat1" ELSE "flat2") /\ UNCHANGED orig
Next == FlattenAct
Spec == Init /\ [][Next]_vars
SpecSatisfiesRelation == phase # "orig" => FlattenWhy(orig, val) = {}
Idempotent == [][phase = "flat1" => val' = val]_vars
NoInvention == IrisOf(val) \subseteq IrisOf(orig)
=============================================================================
