-------------------------- MODULE ConstructorsGen --------------------------
EXTENDS Constructors, Json, IOUtils, SequencesExt, FiniteSetsExt
Calls == {[c |-> k.c, typ |-> typ, expect |-> GenericReply(k, typ)] : k \in Generic, typ \in TypArgs}
         \cup {[c |-> k.c, typ |-> "", expect |-> TypedReply(k)] : k \in Typed}
ASSUME ndJsonSerialize("ctor_calls.ndjson", SetToSeq(Calls))
=============================================================================
