--------------------------- MODULE CollPathModel ---------------------------
EXTENDS CollPathGen
ModelOwners == {o \in OwnerP : o.sch = "https" /\ o.host # "example.com:8080"}
MInit == CInit /\ lst = <<>> /\ res = FALSE
MNext == CNext /\ UNCHANGED vars
MSpec == MInit /\ [][MNext]_<<cvars, vars>>
=============================================================================
