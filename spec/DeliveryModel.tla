--------------------------- MODULE DeliveryModel ---------------------------
EXTENDS Delivery
E(w, f) == [w |-> w, f |-> f]
ModelPool == {Nil, E(1, "iri"), E(1, "actor"), E(2, "https"), E(9, "iri")}
ModelMsgs == {1, 2}
=============================================================================
