--------------------------- MODULE DeliveryTrace ---------------------------
(* Events {"ev":"dstep","op":address|strip|encode|deliver|final,"pre":..,"post":..,"panic":S,...}: one per protocol step of   *)
(* Delivery.tla executed on the real library; the pre-state of a step is the OBSERVED post-state of the previous one, so a   *)
(* wrong step is reported once and the rest of the history is still judged.                                                 *)
EXTENDS DeliveryModel, Json, IOUtils
VARIABLES l, bad, done
Tr == ndJsonDeserialize("delivery_trace.ndjson")
Chunk == 300
Lst(name, got, want) == IF got = want THEN <<>> ELSE <<name>>
SameLists(got, want, names) == LET RECURSIVE G(_) G(i) == IF i > Len(names) THEN <<>> ELSE Lst(names[i], got[names[i]], want[names[i]]) \o G(i + 1) IN G(1)
All5 == <<"to", "cc", "bto", "bcc", "aud">>
SeqSet(s) == {s[i] : i \in 1..Len(s)}
NoRepeat(s) == \A i, j \in 1..Len(s) : i # j => s[i] # s[j]
Why(ev) ==
  IF ev.panic # "" THEN <<"panic">>
  ELSE IF ev.op = "address" THEN
     LET o == Outcome(ev.pre)
         blocked == IF ev.pre.class = "block" /\ ~IsNilE(ev.pre.object) THEN {ev.pre.object.w} ELSE {} IN
     (IF ev.post.ret = o.ret THEN <<>> ELSE <<"ret">>) \o SameLists(ev.post, o, <<"to", "cc", "bto", "bcc">>)
     \o (IF Whos(ev.post.aud) \cap blocked = {} THEN <<>> ELSE <<"blocked-in-audience">>)
  ELSE IF ev.op = "strip" THEN SameLists(ev.post, StripOf(ev.pre), All5)
  ELSE IF ev.op = "encode" THEN
     SameLists(ev.post, WireOf(ev.pre), All5) \o Lst("actor", ev.post.actor, ev.pre.actor) \o Lst("object", ev.post.object, ev.pre.object)
  ELSE IF ev.op = "deliver" THEN
     (IF ev.wbox = ev.w THEN <<>> ELSE <<"wrong-inbox">>) \o (IF ev.post.box = AppendSet(ev.pre.box, ev.m) THEN <<>> ELSE <<"box">>)
  ELSE IF ev.op = "persist" THEN (IF ev.post.box = ev.pre.box /\ ev.post.count = Len(ev.pre.box) THEN <<>> ELSE <<"box-changed-in-storage">>)
  ELSE IF ev.op = "update" THEN
     (IF ev.post.box = ev.pre.box THEN <<>> ELSE <<"inbox-changed-by-update">>) \o (IF ev.post.idkept THEN <<>> ELSE <<"id-changed">>)
     \o (IF ev.class = "plain"
         THEN (IF ev.post.err = "" /\ ev.pre.ver = 1 /\ ev.post.ver = 2 THEN <<>> ELSE <<"not-updated">>)
         ELSE (IF ev.post.err # "" /\ ev.post.ver = ev.pre.ver THEN <<>> ELSE <<"refused-merge-changed-the-copy">>))
  ELSE IF ev.op = "final" THEN
     LET s0 == ev.pre
         blocked == IF s0.class = "block" /\ ~IsNilE(s0.object) THEN {s0.object.w} ELSE {}
         want == {w \in AllWho(s0) \ blocked : Deliverable(w)}
         B == ev.post.boxes
         served == {B[i].w : i \in 1..Len(B)} IN
     (IF want \subseteq served THEN <<>> ELSE <<"addressee-not-served">>)
     \o (IF served \subseteq want THEN <<>> ELSE <<"somebody-else-served">>)
     \o (IF \A i \in 1..Len(B) : NoRepeat(B[i].box) /\ SeqSet(B[i].box) = {1, 2} /\ B[i].count = 2 THEN <<>> ELSE <<"not-exactly-once">>)
  ELSE <<"unknown-step">>
INSTANCE EventJudge
TraceSpec == JInit /\ st = [class |-> "plain"] /\ ret = <<>> /\ phase = "judge" /\ st0 = <<>> /\ wire = None /\ boxes = <<>> /\ pending = {} /\ extra = 0 /\ ver = <<>>
             /\ [][(JStep \/ JFinish) /\ UNCHANGED dvars]_<<jvars, dvars>>
=============================================================================
