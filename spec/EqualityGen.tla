---------------------------- MODULE EqualityGen ----------------------------
(* Leg G for C09: pairs (x, y) for every law, built from the case families.  *)
EXTENDS Equality, Json, IOUtils, SequencesExt, FiniteSetsExt
CONSTANT Tier
QuickTypes == {"Object", "Activity", "Actor", "OrderedCollection", "Question", "Link"}
Vals == (IF Tier = "thorough" THEN OneField(FALSE) ELSE {c \in OneField(FALSE) : c.lab.g \in QuickTypes})
        \cup Nested1 \cup Full(FALSE) \cup TopLevel
Pr(a, b) == [x |-> a, y |-> b]
Refl == {Pr(c.v, c.v) : c \in Vals}
MutOf(c) == IF c.lab.fam = "one" /\ c.lab.t \in MutTerms(c.lab.g)
            THEN LET k == Kind(c.lab.g, c.lab.t)
                     o == OtherVal(k, c.v.p[c.lab.t])
                 IN IF o = c.v.p[c.lab.t] THEN {} ELSE {Pr(c.v, With(c.v, c.lab.t, o)), Pr(With(c.v, c.lab.t, o), c.v)}
            ELSE {}
Mut == UNION {MutOf(c) : c \in Vals}
BaseVals == {BaseV(g, 5) : g \in ObjectGoTypes} \cup {Embedded(g, 6) : g \in ObjectGoTypes}
IdTail(id) == SubSeq(id, Len(Base) + 1, Len(id))
IdVariants(id) == {id \o "x", "https://other.example.net/" \o "o/1", id \o "?page=2",          \* path, host, query
                   "https://example.com:8443/" \o IdTail(id), "https://sub.example.com/" \o IdTail(id)}   \* the host includes the port; a sub-domain is another host
Without(v, t) == [v EXCEPT !.p = Restrict(v.p, DOMAIN v.p \ {t})]
\* two explicit ports
PortPairs == UNION {{Pr(With(v, "id", Str("https://example.com:8443/" \o IdTail(v.p.id.s))), With(v, "id", Str("https://example.com:9443/" \o IdTail(v.p.id.s)))),
                     Pr(With(v, "id", Str("https://example.com:9443/" \o IdTail(v.p.id.s))), With(v, "id", Str("https://example.com:8443/" \o IdTail(v.p.id.s))))} : v \in BaseVals}
\* ids that differ only in the values of a repeated query parameter
QueryPairs == UNION {{Pr(With(v, "id", Str(v.p.id.s \o "?tag=a&tag=a")), With(v, "id", Str(v.p.id.s \o "?tag=a&tag=b"))),
                      Pr(With(v, "id", Str(v.p.id.s \o "?tag=a&tag=b")), With(v, "id", Str(v.p.id.s \o "?tag=a&tag=a")))} : v \in BaseVals}
\* reflexivity also for unusual values: repeated language tags, untagged duplicates
Odd == {With(BaseV(g, 8), t, Nlv(e)) : g \in {"Object", "Actor", "Activity"}, t \in {"name", "summary", "content"},
                                       e \in {<<LR("en", "a"), LR("en", "b")>>, <<LR(NilTag, "a"), LR(NilTag, "b")>>, <<LR("en", "a"), LR("fr", "b"), LR("en", "c")>>}}
OddRefl == {Pr(v, v) : v \in Odd}
IdDiff == UNION {UNION {{Pr(v, With(v, "id", Str(i2))), Pr(With(v, "id", Str(i2)), v)} : i2 \in IdVariants(v.p.id.s)} : v \in BaseVals}
OtherType(g) == CASE g = "Object" -> {"Article", "Video"} [] g = "Actor" -> {"Group", "Service"} [] g = "Activity" -> {"Like", "Delete"}
                  [] g = "IntransitiveActivity" -> {"Travel"} [] OTHER -> {}
TypeDiff == UNION {UNION {{Pr(v, With(v, "type", Str(t2))), Pr(With(v, "type", Str(t2)), v)} : t2 \in OtherType(v.g)} : v \in BaseVals}
FullVals == {c.v : c \in Full(FALSE)}
\* a typed value against the same value without a type
TypeLess == UNION {{Pr(v, Without(v, "type")), Pr(Without(v, "type"), v)} : v \in BaseVals \cup {w \in FullVals : w.g # "Link"}}
NilLikes == {NilItem, Iri(""), Iri("-"), [k |-> "nil", as |-> "Object"], [k |-> "nil", as |-> "Activity"], [k |-> "nil", as |-> "IRI"], [k |-> "list", e |-> <<>>, nilslice |-> TRUE]}
NonNils == {I1, Note1, Person1, Untyped, Link1, ListOf(<<I1>>), BaseV("Activity", 5), BaseV("Collection", 5)}
NilFam == {Pr(a, b) : a \in NilLikes, b \in NilLikes} \cup {Pr(a, b) : a \in NilLikes, b \in NonNils} \cup {Pr(b, a) : a \in NilLikes, b \in NonNils}
\* the same laws on values with EVERY property set (a later comparison must not overwrite an earlier verdict)
FullId == UNION {{Pr(v, With(v, "id", Str(v.p.id.s \o "/other"))), Pr(With(v, "id", Str(v.p.id.s \o "/other")), v)} : v \in {w \in FullVals : w.g # "Link"}}
FullMut == UNION {UNION {LET k == Kind(v.g, t) o == OtherVal(k, v.p[t]) IN
                         IF o = v.p[t] THEN {} ELSE {Pr(v, With(v, t, o)), Pr(With(v, t, o), v)}
                         : t \in (MutTerms(v.g) \ {"id", "type"}) \cap DOMAIN v.p} : v \in FullVals}
\* the generic type names are vocabulary types too: the same mutations on values typed Object / Actor / Activity
GenericVals == {With(v, "type", Str(v.g)) : v \in {w \in FullVals : w.g \in {"Object", "Actor", "Activity"}}}
GenericMut == UNION {UNION {LET k == Kind(v.g, t) o == OtherVal(k, v.p[t]) IN
                            IF o = v.p[t] THEN {} ELSE {Pr(v, With(v, t, o)), Pr(With(v, t, o), v)}
                            : t \in (MutTerms(v.g) \ {"id", "type"}) \cap DOMAIN v.p} : v \in GenericVals}
             \cup {Pr(v, v) : v \in GenericVals}
\* a property holding an embedded collection, changed to an unrelated plain list (and back)
CollToList == UNION {UNION {{Pr(With(BaseV(g, 5), t, Embedded(k, 6)), With(BaseV(g, 5), t, ListOf(<<I1, I2>>))),
                             Pr(With(BaseV(g, 5), t, ListOf(<<I1, I2>>)), With(BaseV(g, 5), t, Embedded(k, 6)))}
                            : t \in {"replies", "context", "target"} \cap Terms(Props(g)),
                              k \in {"Collection", "OrderedCollection", "CollectionPage", "OrderedCollectionPage"}}
                     : g \in {"Object", "Activity"}}
\* a list compared with a list of the same length that repeats one of its members
DupLists == UNION {{Pr(With(BaseV(g, 5), "to", ListOf(<<I1, I2>>)), With(BaseV(g, 5), "to", ListOf(<<I1, I1>>))),
                    Pr(With(BaseV(g, 5), "to", ListOf(<<I1, I1>>)), With(BaseV(g, 5), "to", ListOf(<<I1, I2>>))),
                    Pr(With(BaseV(g, 5), "tag", ListOf(<<Note1, Person1>>)), With(BaseV(g, 5), "tag", ListOf(<<Note1, Note1>>))),
                    Pr(With(BaseV(g, 5), "tag", ListOf(<<Note1, Note1>>)), With(BaseV(g, 5), "tag", ListOf(<<Note1, Person1>>)))} : g \in {"Object", "Activity"}}
\* untyped activities and actors (the struct says what they are), and a list member that keeps its id but changes inside
UntypedVals == {Without(v, "type") : v \in {w \in FullVals : w.g \in {"Activity", "Actor"}}}
UntypedMut == UNION {UNION {LET k == Kind(v.g, t) o == OtherVal(k, v.p[t]) IN
                            IF o = v.p[t] THEN {} ELSE {Pr(v, With(v, t, o)), Pr(With(v, t, o), v)}
                            : t \in (MutTerms(v.g) \ {"id", "type"}) \cap DOMAIN v.p} : v \in UntypedVals}
Note1b == With(Note1, "name", Nlv(<<LR(NilTag, "another note")>>))       \* same id as Note1, other content
MemberInside == UNION {UNION {{Pr(With(BaseV(g, 5), t, ListOf(<<I2, Note1>>)), With(BaseV(g, 5), t, ListOf(<<I2, Note1b>>))),
                               Pr(With(BaseV(g, 5), t, ListOf(<<I2, Note1b>>)), With(BaseV(g, 5), t, ListOf(<<I2, Note1>>)))}
                              : t \in {"tag", "to", "attachment"}} : g \in {"Object", "Activity"}}
AllPairs == UntypedMut \cup MemberInside \cup DupLists \cup CollToList \cup GenericMut \cup PortPairs \cup TypeLess \cup FullId \cup FullMut \cup Refl \cup OddRefl \cup QueryPairs \cup Mut \cup IdDiff \cup TypeDiff \cup NilFam
GenInit == x = NilItem /\ y = NilItem /\ res = FALSE /\ phase = "gen"
GenNext == FALSE /\ UNCHANGED vars
ASSUME ndJsonSerialize("c09_pairs.ndjson", SetToSeq(AllPairs))
=============================================================================
