------------------------------ MODULE CleanGen ------------------------------
(* Leg G for C11: trees with bto/bcc populated on and off the walked properties, to depth 3. *)
EXTENDS Clean, Json, IOUtils, SequencesExt, FiniteSetsExt
Priv(v, n) == With(With(v, "bto", ListOf(<<Iri(Base \o "secret/" \o ToString(n))>>)), "bcc", ListOf(<<Iri(Base \o "hidden/" \o ToString(n)), I2>>))
\* the public lists mention some of the private recipients too: cleaning must not touch to/cc
Leaf(n) == Priv(With(With(BaseV("Object", 40 + n), "to", ListOf(<<I1, I2>>)), "cc", ListOf(<<Iri(Base \o "secret/" \o ToString(n)), I3>>)), n)
ByValue(v) == [v EXCEPT !.ptr = FALSE]
Level1(n) == { Leaf(n), With(Leaf(n), "attachment", Leaf(n + 1)), With(Leaf(n), "tag", ListOf(<<Leaf(n + 1), I1, Leaf(n + 2)>>)),
               With(Leaf(n), "inReplyTo", Leaf(n + 1)),                                       \* off the walk: must keep its bto/bcc
               Priv(With(BaseV("Activity", 50 + n), "object", Leaf(n + 1)), n),
               Priv(With(With(BaseV("Activity", 50 + n), "actor", Priv(Person1, n + 1)), "result", Leaf(n + 2)), n) }
RootTypes == ObjectGoTypes
Roots1 == UNION {{Case("clean", g, t, "child", With(Priv(BaseV(g, 1), 1), t, c)) : c \in Level1(2)} : g \in RootTypes,
                 t \in {"attachment", "icon", "context", "attributedTo", "inReplyTo", "location", "object", "actor", "target", "origin"}}
Roots1OK == {c \in Roots1 : c.lab.t \in Terms(Props(c.lab.g))}
RootsList == UNION {{Case("clean", g, t, "list", With(Priv(BaseV(g, 1), 1), t, ListOf(<<c, I3>>))) : c \in Level1(5)} : g \in {"Object", "Activity", "Actor", "OrderedCollection"},
                 t \in {"audience", "tag", "to", "cc"}}
\* a LIST in a walked single-item position, and lists whose first element is an IRI
ListInSingle == UNION {{Case("clean", g, t, "list-in-single", With(Priv(BaseV(g, 1), 1), t, ListOf(<<Leaf(7), I1, Leaf(8)>>))),
                        Case("clean", g, t, "iri-first", With(Priv(BaseV(g, 1), 1), t, ListOf(<<I3, Leaf(7), I1, Leaf(8)>>)))}
                       : g \in {"Object", "Activity", "Actor", "Question", "Place"}, t \in {"attachment", "icon", "image", "context", "generator", "attributedTo", "preview", "audience", "tag"}}
\* members that share an identity: two id-less embedded objects (anonymous attachments, mentions), and two objects with the SAME id
Idless(n) == [Leaf(n) EXCEPT !.p = Restrict(Leaf(n).p, DOMAIN Leaf(n).p \ {"id"})]
SameIdAs(n, m) == With(Leaf(m), "id", Leaf(n).p.id)
Twins == UNION {{Case("clean", g, t, "idless-twins", With(Priv(BaseV(g, 1), 1), t, ListOf(<<Idless(7), Idless(8), I1>>))),
                 Case("clean", g, t, "same-id-twins", With(Priv(BaseV(g, 1), 1), t, ListOf(<<Leaf(7), I1, SameIdAs(7, 8)>>)))}
                : g \in {"Object", "Activity", "Actor"}, t \in {"attachment", "tag", "audience"}}
ValueEmbedded == {Case("clean", g, "attachment", "by-value", With(Priv(BaseV(g, 1), 1), "attachment", ByValue(With(BaseV("Object", 60), "name", Nlv(<<LR(NilTag, "v")>>))))) : g \in {"Object", "Activity"}}
Deep == {Case("clean", "Activity", "object", "depth3",
              With(Priv(BaseV("Activity", 1), 1), "object", With(Priv(BaseV("Activity", 2), 2), "object", With(Leaf(3), "preview", With(Leaf(4), "replies", Leaf(5))))))}
TopList == {Case("clean", "ItemCollection", "top", "list", ListOf(<<Leaf(1), I1, Priv(BaseV("Activity", 2), 2)>>))}
AllClean == Roots1OK \cup RootsList \cup ListInSingle \cup ValueEmbedded \cup Deep \cup Twins
GenInit == orig = NilItem /\ val = NilItem /\ phase = "gen"
GenNext == FALSE /\ UNCHANGED vars
ASSUME ndJsonSerialize("c11_cases.ndjson", SetToSeq(AllClean))
=============================================================================
