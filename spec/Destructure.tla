---------------------------- MODULE Destructure ----------------------------
(***************************************************************************)
(* Growth beyond the listed properties: what the callback helpers do with  *)
(* LISTS.  On<X>(it, fn)                                                   *)
(*   - does nothing for the nil item;                                      *)
(*   - for a single item calls fn once with the X view of it when X is a   *)
(*     view of the item's struct (Vocab!IsViewOf), and returns an error    *)
(*     without calling fn otherwise (bare IRIs have no view);              *)
(*   - the iterating helpers walk an item list (or IRI list) left to       *)
(*     right, recursively, some of them stepping over links; the walk      *)
(*     stops at the first member that is refused, or at the first error    *)
(*     the callback returns, and that error is the helper's result;        *)
(*   - the non-iterating helpers refuse a list.                            *)
(* The walk is a small stack machine (one action per loop iteration of the *)
(* code); Visit is its functional summary and the model checker shows the  *)
(* two agree on every helper x item x failing call within the bounds.      *)
(***************************************************************************)
EXTENDS Vocab

H(h, iter, skip) == [h |-> h, target |-> SubSeq(h, 3, Len(h)), iter |-> iter, skip |-> skip]
Helpers == { H("OnObject", TRUE, TRUE), H("OnActor", TRUE, TRUE), H("OnActivity", TRUE, TRUE),
             H("OnIntransitiveActivity", TRUE, FALSE), H("OnQuestion", TRUE, FALSE),
             H("OnPlace", TRUE, TRUE), H("OnProfile", TRUE, TRUE), H("OnTombstone", TRUE, FALSE),
             H("OnRelationship", FALSE, FALSE), H("OnLink", FALSE, FALSE),
             H("OnCollection", FALSE, FALSE), H("OnCollectionPage", FALSE, FALSE),
             H("OnOrderedCollection", FALSE, FALSE), H("OnOrderedCollectionPage", FALSE, FALSE) }
HelperOf(name) == CHOOSE h \in Helpers : h.h = name

\* items: only the shape matters here; every object carries a label n so that calls can be told apart
NilI == [k |-> "nil"]
IriI(n) == [k |-> "iri", n |-> n]
ObjI(g, n) == [k |-> "obj", g |-> g, n |-> n]
ListI(e) == [k |-> "list", e |-> e]

\* the code's acceptance: the view exists -- except the one conversion the library performs although the vocabulary has no
\* such view (recorded under C08 as a known finding): a CollectionPage presented as an OrderedCollectionPage
Accepts(X, g) == IsViewOf(X, g) \/ (X = "OrderedCollectionPage" /\ g = "CollectionPage")
IsLinkI(v) == v.k = "obj" /\ v.g = "Link"

Res(calls, err) == [calls |-> calls, err |-> err]
RECURSIVE Visit(_, _, _, _), Fold(_, _, _, _, _)
Visit(h, v, acc, f) ==     \* f = which call of fn fails (0: none)
  CASE v.k = "nil" -> Res(acc, FALSE)
    [] v.k = "list" -> IF h.iter THEN Fold(h, v.e, 1, acc, f) ELSE Res(acc, TRUE)
    [] v.k = "obj" -> IF Accepts(h.target, v.g) THEN Res(Append(acc, v.n), Len(acc) + 1 = f) ELSE Res(acc, TRUE)
    [] OTHER -> Res(acc, TRUE)
Fold(h, e, i, acc, f) ==
  IF i > Len(e) THEN Res(acc, FALSE)
  ELSE IF h.skip /\ IsLinkI(e[i]) THEN Fold(h, e, i + 1, acc, f)
  ELSE LET r == Visit(h, e[i], acc, f) IN IF r.err THEN r ELSE Fold(h, e, i + 1, r.calls, f)
Expect(h, v, f) == Visit(h, v, <<>>, f)

\* every object of v in document order, as [g, n]
RECURSIVE Leaves(_)
Leaves(v) == CASE v.k = "obj" -> <<[g |-> v.g, n |-> v.n]>>
               [] v.k = "list" -> LET RECURSIVE Cat(_) Cat(i) == IF i > Len(v.e) THEN <<>> ELSE Leaves(v.e[i]) \o Cat(i + 1) IN Cat(1)
               [] OTHER -> <<>>
Labels(s) == [i \in 1..Len(s) |-> s[i].n]
IsSubSeq(a, b) == \* a is a subsequence of b
  LET RECURSIVE Go(_, _)
      Go(i, j) == IF i > Len(a) THEN TRUE ELSE IF j > Len(b) THEN FALSE ELSE IF a[i] = b[j] THEN Go(i + 1, j + 1) ELSE Go(i, j + 1)
  IN Go(1, 1)

-----------------------------------------------------------------------------
\* the walk as the code performs it: a stack of [e, i] frames, one action per loop iteration
CONSTANTS Members, MaxLen, FailAts
VARIABLES helper, item, failAt, stack, calls, status
dvars == <<helper, item, failAt, stack, calls, status>>

Seqs(S, n) == UNION {[1..m -> S] : m \in 0..n}
Inner == Members \cup {ListI(e) : e \in Seqs(Members, 2)}
Items == Members \cup {ListI(e) : e \in Seqs(Inner, MaxLen)}

DInit == /\ helper \in Helpers /\ item \in Items /\ failAt \in FailAts
         /\ stack = <<>> /\ calls = <<>> /\ status = "start"

DFrozen == helper = HelperOf("OnObject") /\ item = NilI /\ failAt = 0 /\ stack = <<>> /\ calls = <<>> /\ status = "start"   \* for the Gen/Trace modules

Finish(st) == status' = st /\ stack' = <<>>
Single(v) ==   \* what one non-list item does to calls/status; the caller decides the stack
  CASE v.k = "nil" -> calls' = calls /\ status' = "run"
    [] v.k = "obj" /\ Accepts(helper.target, v.g) -> calls' = Append(calls, v.n) /\ status' = IF Len(calls) + 1 = failAt THEN "err" ELSE "run"
    [] OTHER -> calls' = calls /\ status' = "err"
Start == /\ status = "start"
         /\ IF item.k = "list"
            THEN IF helper.iter THEN stack' = <<[e |-> item.e, i |-> 1]>> /\ status' = "run" /\ UNCHANGED calls
                 ELSE Finish("err") /\ UNCHANGED calls
            ELSE /\ Single(item) /\ stack' = <<>>
         /\ UNCHANGED <<helper, item, failAt>>
Top == stack[Len(stack)]
Pop == SubSeq(stack, 1, Len(stack) - 1)
Advance == [stack EXCEPT ![Len(stack)].i = @ + 1]
Step == /\ status = "run" /\ stack # <<>>
        /\ IF Top.i > Len(Top.e) THEN stack' = Pop /\ UNCHANGED <<calls, status>>          \* this list is done
           ELSE LET m == Top.e[Top.i] IN
                IF helper.skip /\ IsLinkI(m) THEN stack' = Advance /\ UNCHANGED <<calls, status>>
                ELSE IF m.k = "list" THEN stack' = Append(Advance, [e |-> m.e, i |-> 1]) /\ UNCHANGED <<calls, status>>
                ELSE Single(m) /\ stack' = Advance
        /\ UNCHANGED <<helper, item, failAt>>
Done == status = "err" \/ (status = "run" /\ stack = <<>>)
DNext == Start \/ Step
DSpec == DInit /\ [][DNext]_dvars /\ WF_dvars(DNext)

\* ---- what the model checker establishes ---------------------------------
CallsInDocumentOrder == IsSubSeq(calls, Labels(Leaves(item)))
AgreesWithSummary == Done => LET r == Expect(helper, item, failAt) IN r.calls = calls /\ r.err = (status = "err")
StopsAtFailingCall == (failAt > 0 /\ Len(calls) >= failAt) => (Len(calls) = failAt /\ status = "err")
\* a walk that ends without an error has called back for every object except the links it steps over
CompleteWhenNoError == (Done /\ status = "run" /\ item.k = "list") =>
                          calls = Labels(SelectSeq(Leaves(item), LAMBDA x : ~(helper.skip /\ x.g = "Link")))
\* and every object called back for has the view
OnlyViews == \A i \in 1..Len(calls) : \E x \in {Leaves(item)[j] : j \in 1..Len(Leaves(item))} : x.n = calls[i] /\ Accepts(helper.target, x.g)
Terminates == <>Done
=============================================================================
