---------------------------- MODULE LifecycleGen ----------------------------
EXTENDS Lifecycle, Json, IOUtils, SequencesExt, FiniteSetsExt
Priv(v, n) == With(With(v, "bto", ListOf(<<Iri(Base \o "secret/" \o ToString(n))>>)), "bcc", ListOf(<<Iri(Base \o "hidden/" \o ToString(n))>>))
Child(n) == Priv(With(BaseV("Object", 70 + n), "to", ListOf(<<I1, Person1>>)), n)
LifeVals == { Case("life", "Activity", "object", "a",
                   Priv(With(With(With(BaseV("Activity", 1), "object", Child(1)), "actor", Person1), "cc", ListOf(<<Person1, I2, Note1>>)), 1)),
              Case("life", "Object", "attachment", "b",
                   Priv(With(With(With(BaseV("Object", 2), "attachment", Child(2)), "attributedTo", Person1), "tag", ListOf(<<Child(3), I1>>)), 2)),
              Case("life", "Actor", "icon", "c", Priv(With(With(BaseV("Actor", 3), "icon", Child(4)), "audience", ListOf(<<Note1, I3>>)), 3)),
              Case("life", "Question", "actor", "d", Priv(With(With(BaseV("Question", 4), "actor", Person1), "replies", Untyped), 4)),
              Case("life", "OrderedCollectionPage", "orderedItems", "e",
                   With(With(BaseV("OrderedCollectionPage", 5), "orderedItems", ListOf(<<Child(5), I2>>)), "attributedTo", Link1)) }
Histories == UNION {[1..n -> LOps] : n \in 1..MaxLen}
ASSUME ndJsonSerialize("life_cases.ndjson", SetToSeq({[lab |-> c.lab, v |-> c.v, ops |-> h] : c \in LifeVals, h \in Histories}))
=============================================================================
