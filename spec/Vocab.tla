------------------------------- MODULE Vocab -------------------------------
(***************************************************************************)
(* The ActivityStreams 2.0 / ActivityPub vocabulary as the library's data  *)
(* types carry it -- written ONCE, from the W3C documents, not from the Go *)
(* code.  Everything table-shaped in the other modules refers to this one: *)
(*   TypeNames / Family / GoType : which struct a type name decodes to     *)
(*   Props(g)                    : ordered rows [t |-> term, k |-> kind]   *)
(* Kinds:  id type mime iri lang str  (string-like, JSON string)           *)
(*         item (one IRI | embedded object/link | array of those)          *)
(*         items (always a list)   nlv (natural-language value)            *)
(*         time (xsd:dateTime)     dur (xsd:duration)                      *)
(*         uint int float bool     source endpoints pubkey (nested maps)   *)
(***************************************************************************)
EXTENDS Naturals, Sequences, FiniteSets, TLC

R(t, k) == [t |-> t, k |-> k]

ObjectProps == <<
  R("id", "id"), R("type", "type"), R("name", "nlv"), R("attachment", "item"), R("attributedTo", "item"),
  R("audience", "items"), R("content", "nlv"), R("context", "item"), R("mediaType", "mime"), R("endTime", "time"),
  R("generator", "item"), R("icon", "item"), R("image", "item"), R("inReplyTo", "item"), R("location", "item"),
  R("preview", "item"), R("published", "time"), R("replies", "item"), R("startTime", "time"), R("summary", "nlv"),
  R("tag", "items"), R("updated", "time"), R("url", "item"), R("to", "items"), R("bto", "items"), R("cc", "items"),
  R("bcc", "items"), R("duration", "dur"), R("likes", "item"), R("shares", "item"), R("source", "source") >>

IntransitiveOwn == << R("actor", "item"), R("target", "item"), R("result", "item"), R("origin", "item"), R("instrument", "item") >>
CollectionOwn(members) == << R("current", "item"), R("first", "item"), R("last", "item"), R("totalItems", "uint"), R(members, "items") >>
PageOwn == << R("partOf", "item"), R("next", "item"), R("prev", "item") >>

OwnProps(g) ==
  CASE g = "Object" -> <<>>
    [] g = "Actor" -> << R("inbox", "item"), R("outbox", "item"), R("following", "item"), R("followers", "item"), R("liked", "item"),
                         R("preferredUsername", "nlv"), R("endpoints", "endpoints"), R("streams", "items"), R("publicKey", "pubkey") >>
    [] g = "IntransitiveActivity" -> IntransitiveOwn
    [] g = "Activity" -> IntransitiveOwn \o << R("object", "item") >>
    [] g = "Question" -> IntransitiveOwn \o << R("oneOf", "item"), R("anyOf", "item"), R("closed", "bool") >>
    [] g = "Collection" -> CollectionOwn("items")
    [] g = "CollectionPage" -> CollectionOwn("items") \o PageOwn
    [] g = "OrderedCollection" -> CollectionOwn("orderedItems")
    [] g = "OrderedCollectionPage" -> CollectionOwn("orderedItems") \o PageOwn \o << R("startIndex", "uint") >>
    [] g = "Place" -> << R("accuracy", "float"), R("altitude", "float"), R("latitude", "float"), R("longitude", "float"),
                         R("radius", "int"), R("units", "str") >>
    [] g = "Profile" -> << R("describes", "item") >>
    [] g = "Relationship" -> << R("subject", "item"), R("object", "item"), R("relationship", "item") >>
    [] g = "Tombstone" -> << R("formerType", "type"), R("deleted", "time") >>

LinkProps == << R("id", "id"), R("type", "type"), R("name", "nlv"), R("rel", "iri"), R("mediaType", "mime"), R("height", "uint"),
                R("width", "uint"), R("preview", "item"), R("href", "iri"), R("hreflang", "lang") >>

ObjectGoTypes == {"Object", "Actor", "Activity", "IntransitiveActivity", "Question", "Collection", "CollectionPage",
                  "OrderedCollection", "OrderedCollectionPage", "Place", "Profile", "Relationship", "Tombstone"}
GoTypes == ObjectGoTypes \cup {"Link"}

\* every struct repeats Object's rows verbatim and appends its own (the C08 layout obligation)
Props(g) == IF g = "Link" THEN LinkProps ELSE ObjectProps \o OwnProps(g)

SourceProps == << R("content", "nlv"), R("mediaType", "mime") >>
EndpointsProps == << R("uploadMedia", "item"), R("oauthAuthorizationEndpoint", "item"), R("oauthTokenEndpoint", "item"),
                     R("provideClientKey", "item"), R("signClientKey", "item"), R("sharedInbox", "item"),
                     R("proxyUrl", "item") >>       \* (ActivityPub 4.1 lists six endpoints; the library's struct had five of them and uploadMedia)
PubKeyProps == << R("id", "id"), R("owner", "iri"), R("publicKeyPem", "str") >>

Terms(rows) == {rows[i].t : i \in 1..Len(rows)}
KindIn(rows, t) == (CHOOSE i \in 1..Len(rows) : rows[i].t = t)
RowKind(rows, t) == rows[CHOOSE i \in 1..Len(rows) : rows[i].t = t].k
Kind(g, t) == RowKind(Props(g), t)
StringKinds == {"id", "type", "mime", "iri", "lang", "str"}

\* no struct declares a term twice
UniqueTerms(rows) == \A i, j \in 1..Len(rows) : i # j => rows[i].t # rows[j].t
ASSUME \A g \in GoTypes : UniqueTerms(Props(g))

\* ---- which struct is a view of which (C08; used by Views and Destructure) --------
\* items and orderedItems are one row; X is a view of g exactly when X's rows are a prefix of g's
Alias(n) == CASE n = "OrderedItems" -> "Items" [] n = "orderedItems" -> "items" [] OTHER -> n
RowPrefix(P, Q) == Len(P) <= Len(Q) /\ \A i \in 1..Len(P) : Alias(P[i].t) = Alias(Q[i].t) /\ P[i].k = Q[i].k
IsViewOf(X, g) == X \in GoTypes /\ g \in GoTypes /\ RowPrefix(Props(X), Props(g))

\* ---- type names ------------------------------------------------------------
ObjectTypeNames == {"Article", "Audio", "Document", "Event", "Image", "Note", "Page", "Video"}
ActorTypeNames == {"Application", "Group", "Organization", "Person", "Service"}
ActivityTypeNames == {"Accept", "Add", "Announce", "Block", "Create", "Delete", "Dislike", "Flag", "Follow", "Ignore", "Invite",
                      "Join", "Leave", "Like", "Listen", "Move", "Offer", "Reject", "Read", "Remove", "TentativeReject",
                      "TentativeAccept", "Undo", "Update", "View"}
IntransitiveTypeNames == {"Arrive", "Travel"}
CollectionTypeNames == {"Collection", "OrderedCollection", "CollectionPage", "OrderedCollectionPage"}
LinkTypeNames == {"Link", "Mention"}
GenericNames == {"Object", "Actor", "Activity", "IntransitiveActivity"}
SpecialNames == {"Place", "Profile", "Relationship", "Tombstone", "Question"}
TypeNames == ObjectTypeNames \cup ActorTypeNames \cup ActivityTypeNames \cup IntransitiveTypeNames \cup CollectionTypeNames
             \cup LinkTypeNames \cup GenericNames \cup SpecialNames

GoType(n) ==
  CASE n \in ObjectTypeNames \cup {"Object", ""} -> "Object"
    [] n \in ActorTypeNames \cup {"Actor"} -> "Actor"
    [] n \in ActivityTypeNames \cup {"Activity"} -> "Activity"
    [] n \in IntransitiveTypeNames \cup {"IntransitiveActivity"} -> "IntransitiveActivity"
    [] n \in LinkTypeNames -> "Link"
    [] n \in CollectionTypeNames \cup SpecialNames -> n
    [] OTHER -> "none"

Family(n) ==
  CASE n \in ObjectTypeNames \cup {"Object", "Place", "Profile", "Relationship", "Tombstone"} -> "object"
    [] n \in ActorTypeNames \cup {"Actor"} -> "actor"
    [] n \in ActivityTypeNames \cup {"Activity"} -> "activity"
    [] n \in IntransitiveTypeNames \cup {"IntransitiveActivity", "Question"} -> "intransitive"
    [] n \in CollectionTypeNames -> "collection"
    [] n \in LinkTypeNames -> "link"
    [] OTHER -> "none"

\* a canonical type name for each struct (used to build well-formed values)
DefaultType(g) ==
  CASE g = "Object" -> "Note" [] g = "Actor" -> "Person" [] g = "Activity" -> "Create"
    [] g = "IntransitiveActivity" -> "Arrive" [] g = "Link" -> "Mention" [] OTHER -> g
ASSUME \A g \in GoTypes : GoType(DefaultType(g)) = g
=============================================================================
