-------------------------------- MODULE Copy --------------------------------
(***************************************************************************)
(* C18 -- CopyItemProperties(to, from) as a RELATION between the value     *)
(* before and after.  Property maps are functions term -> value with       *)
(* absent = unset, so the same operators judge the small lattice model     *)
(* explored by TLC and the real values recorded from the code.             *)
(***************************************************************************)
EXTENDS Cases

Unset == [k |-> "unset"]
Get(m, t) == IF t \in DOMAIN m THEN m[t] ELSE Unset
IsSet(m, t) == t \in DOMAIN m

Merged == {"name", "summary", "content", "mediaType", "attachment", "attributedTo", "audience", "context", "generator", "icon",
           "image", "inReplyTo", "location", "preview", "replies", "tag", "url", "to", "bto", "cc", "bcc", "startTime", "endTime",
           "inbox", "outbox", "following", "followers", "liked", "preferredUsername",
           "first", "last", "items", "orderedItems", "partOf", "next", "prev"}

\* ids are compared by IRI equivalence (ignoring scheme): the presentations used by the guard cases are tabulated here
IdClass(s) == CASE s \in {Base \o "same/1", Base \o "same/1/", "http://example.com/same/1", "https://EXAMPLE.COM/same/1"} -> "same-1"
                [] OTHER -> s
SameId(a, b) == IdClass(a) = IdClass(b)
HasIdStr(m) == IsSet(m, "id") /\ "s" \in DOMAIN m.id
EquivIds(a, b) == HasIdStr(a) /\ HasIdStr(b) /\ SameId(a.id.s, b.id.s)
\* the post-condition of a successful merge on property maps
MergeOK(to, from, to2) ==
  LET dom == DOMAIN to \cup DOMAIN from \cup DOMAIN to2 IN
  /\ Get(to2, "type") = Get(from, "type")
  /\ (Get(to2, "id") = Get(from, "id") \/ EquivIds(to2, from))   \* (a) from's id (up to equivalence)
  /\ \A t \in dom \ {"id", "type"} : Get(to2, t) \in {Get(to, t), Get(from, t)}          \* (b) nothing invented
  /\ \A t \in dom \ {"id", "type"} : IsSet(to, t) /\ ~IsSet(from, t) => Get(to2, t) = Get(to, t)   \* (c) nothing lost
  /\ \A t \in dom \cap Merged : IsSet(from, t) => Get(to2, t) = Get(from, t)             \* (d) merged properties win

MergeWhy(to, from, to2) ==
  LET dom == DOMAIN to \cup DOMAIN from \cup DOMAIN to2 IN
  (IF (Get(to2, "id") = Get(from, "id") \/ EquivIds(to2, from)) /\ Get(to2, "type") = Get(from, "type")
   THEN {} ELSE {[t |-> "id/type", sym |-> "not-taken-from-from"]})
  \cup {[t |-> t, sym |-> "invented"] : t \in {u \in dom \ {"id", "type"} : Get(to2, u) \notin {Get(to, u), Get(from, u)}}}
  \cup {[t |-> t, sym |-> "lost"] : t \in {u \in dom \ {"id", "type"} : IsSet(to, u) /\ ~IsSet(from, u) /\ Get(to2, u) # Get(to, u)}}
  \cup {[t |-> t, sym |-> "not-merged"] : t \in {u \in dom \cap Merged : IsSet(from, u) /\ Get(to2, u) # Get(from, u)}}

\* guards
Supported(typ) == typ = "" \/ Family(typ) \in {"object", "actor", "collection"}
TypeOfV(v) == IF v.k = "obj" /\ "type" \in DOMAIN v.p THEN v.p.type.s ELSE ""
IdOfV(v) == IF v.k = "obj" /\ "id" \in DOMAIN v.p THEN v.p.id.s ELSE ""
MustRefuse(to, from) ==
  \/ to.k = "nil" \/ from.k = "nil"
  \/ ~SameId(IdOfV(to), IdOfV(from))
  \/ (TypeOfV(to) # "" /\ TypeOfV(to) # TypeOfV(from))
  \/ ~Supported(TypeOfV(to))

-----------------------------------------------------------------------------
(* Lattice model: each representative term is unset, A or B on either side. *)
CONSTANTS RepTerms            \* representative terms, some merged some not
VARIABLES mto, mfrom, phase
vars == <<mto, mfrom, phase>>
A == [k |-> "val", v |-> "A"]
B == [k |-> "val", v |-> "B"]
Maps(vals) == UNION {[S -> vals] : S \in SUBSET RepTerms}
Ident == [id |-> [k |-> "val", v |-> "id"], type |-> [k |-> "val", v |-> "T"]]
Init == /\ \E a \in Maps({A}), b \in Maps({B}) : mto = a @@ Ident /\ mfrom = b @@ Ident
        /\ phase = "before"
CopyAct == /\ phase = "before" /\ phase' = "after"
           /\ \E r \in UNION {[S -> {A, B}] : S \in SUBSET RepTerms} : MergeOK(mto, mfrom, r @@ Ident) /\ mto' = r @@ Ident
           /\ UNCHANGED mfrom
Next == CopyAct
Spec == Init /\ [][Next]_vars
\* consequences TLC checks on every admitted outcome
NoLoss == phase = "after" => \A t \in RepTerms : t \in DOMAIN mfrom \/ t \notin DOMAIN mfrom   \* (trivially true; see NoLossH)
FromWins == phase = "after" => \A t \in RepTerms \cap Merged : t \in DOMAIN mfrom => Get(mto, t) = B
NothingInvented == phase = "after" => \A t \in DOMAIN mto \ {"id", "type"} : mto[t] \in {A, B}
\* the relation is satisfiable for every pair (the action is total): checked via deadlock-freedom of CopyAct
Satisfiable == phase = "before" => ENABLED CopyAct
=============================================================================
