---------------------------- MODULE Constructors ----------------------------
(***************************************************************************)
(* Growth beyond the listed properties: the *New constructors.             *)
(* A constructor call [c, typ] yields a value of a fixed struct whose type *)
(* is the requested name when that name belongs to the constructor's       *)
(* family, and the family's generic name otherwise; id (and object /       *)
(* target / partOf) are carried, nothing else is set.                      *)
(* The machine requests every constructor with every type name.            *)
(***************************************************************************)
EXTENDS Vocab

Generic == {[c |-> "ActivityNew", g |-> "Activity", fam |-> ActivityTypeNames, dflt |-> "Activity", hasTyp |-> TRUE],
            [c |-> "ActorNew", g |-> "Actor", fam |-> ActorTypeNames, dflt |-> "Actor", hasTyp |-> TRUE],
            [c |-> "IntransitiveActivityNew", g |-> "IntransitiveActivity", fam |-> IntransitiveTypeNames \cup {"Question"}, dflt |-> "IntransitiveActivity", hasTyp |-> TRUE],
            [c |-> "ObjectNew", g |-> "Object", fam |-> ObjectTypeNames \cup {"Place", "Profile", "Relationship", "Tombstone"}, dflt |-> "Object", hasTyp |-> TRUE],
            [c |-> "LinkNew", g |-> "Link", fam |-> LinkTypeNames, dflt |-> "Link", hasTyp |-> TRUE]}
Typed == {[c |-> n \o "New", g |-> GoType(n), type |-> n] : n \in ActivityTypeNames \cup ActorTypeNames \cup IntransitiveTypeNames
                                                                     \cup {"Question", "Collection", "OrderedCollection", "Mention"}}
TypArgs == TypeNames \cup {"", "Custom", "note"}

GenericReply(k, typ) == [g |-> k.g, type |-> IF typ \in k.fam THEN typ ELSE k.dflt]
TypedReply(k) == [g |-> k.g, type |-> k.type]

VARIABLES req, rep
cvars == <<req, rep>>
CInit == req = [c |-> "none"] /\ rep = [g |-> "none", type |-> ""]
CallGeneric(k, typ) == req' = [c |-> k.c, typ |-> typ] /\ rep' = GenericReply(k, typ)
CallTyped(k) == req' = [c |-> k.c, typ |-> ""] /\ rep' = TypedReply(k)
CNext == (\E k \in Generic, typ \in TypArgs : CallGeneric(k, typ)) \/ (\E k \in Typed : CallTyped(k))
CSpec == CInit /\ [][CNext]_cvars
\* a constructor never yields a type name of another struct's family
TypeFitsStruct == rep.g # "none" => (GoType(rep.type) = rep.g \/ (rep.g = "Object" /\ Family(rep.type) = "object") \/ (rep.g = "IntransitiveActivity" /\ rep.type = "Question"))
=============================================================================
