--------------------------- MODULE LifecycleTrace ---------------------------
(* Events: {"ev":"step","op":..,"pre":value,"post":value,"err":S}  (pre of a step = observed post of the previous one) *)
EXTENDS Lifecycle, Json, IOUtils
VARIABLES l, bad, done
Tr == ndJsonDeserialize("life_trace.ndjson")
Chunk == 100
E(t, sym) == [t |-> t, sym |-> sym]
Why(ev) ==
  IF ev.err # "" THEN <<E("*", "error")>>
  ELSE IF ev.op = "flatten" THEN (LET w == F!FlattenWhy(ev.pre, ev.post) IN IF w = {} THEN <<>> ELSE <<CHOOSE x \in w : TRUE>>)
  ELSE LET d == Diff(Apply(ev.op, ev.pre), ev.post) IN IF d = <<>> THEN <<>> ELSE <<E(d[1].t, d[1].sym)>>
INSTANCE EventJudge
TraceSpec == JInit /\ orig = NilItem /\ val = NilItem /\ phase = "judge" /\ hist = <<>>
             /\ [][(JStep \/ JFinish) /\ UNCHANGED lvars]_<<jvars, lvars>>
=============================================================================
