----------------------------- MODULE HostileGen -----------------------------
(* Leg G for C04: TLC explores the Hostile machine and prints the document of every cell once. *)
EXTENDS Hostile, Json
GDecode == Decode /\ (outcome' = "value" => PrintT("@@ " \o ToJson(cell @@ [doc |-> DocOf(cell)])))
GSpec == Init /\ [][GDecode]_vars
=============================================================================
