------------------------------ MODULE NatLang ------------------------------
(***************************************************************************)
(* C19 -- NaturalLanguageValues as an ordered multimap from language tag   *)
(* to text.  State: e = sequence of [r |-> tag, t |-> text]; res = reply.  *)
(*                                                                         *)
(* Get/Append/Add/Count/First are functions.  Set is specified by its      *)
(* post-condition (SetOK), i.e. as a RELATION: the property does not say   *)
(* whether a tag that occurs twice has one or all of its entries replaced. *)
(***************************************************************************)
EXTENDS Naturals, Sequences, FiniteSets, TLC

CONSTANTS Tags, Texts, MaxLen

Entries == [r : Tags, t : Texts]

RECURSIVE GetFrom(_, _, _)
GetFrom(e, r, i) == IF i > Len(e) THEN [k |-> "nil"]
                    ELSE IF e[i].r = r THEN [k |-> "text", t |-> e[i].t] ELSE GetFrom(e, r, i + 1)
GetF(e, r) == GetFrom(e, r, 1)          \* text of the FIRST entry with that tag

Refs(e) == [i \in 1..Len(e) |-> e[i].r]
Others(e, r) == SelectSeq(e, LAMBDA x : x.r # r)
HasTag(e, r) == \E i \in 1..Len(e) : e[i].r = r

\* Set(r, v): post-condition
SetOK(e, r, v, e2) ==
  /\ GetF(e2, r) = [k |-> "text", t |-> v]               \* Get(tag) returns v
  /\ Others(e2, r) = Others(e, r)                         \* every other tag's entries untouched
  /\ \/ Len(e2) = Len(e) /\ Refs(e2) = Refs(e)            \* order of entries unchanged ...
     \/ Len(e2) = Len(e) + 1 /\ Refs(e2) = Append(Refs(e), r) /\ ~HasTag(e, r)  \* ... grown by at most one
  /\ \A i \in 1..Len(e2) : e2[i].r = r => (e2[i].t = v \/ (i <= Len(e) /\ e2[i] = e[i]))  \* no third text invented

\* deterministic operations: successor contents and reply
ApplyOp(e, op) ==
  CASE op.o = "Get"    -> [e |-> e, res |-> GetF(e, op.r)]
    [] op.o = "Append" -> [e |-> Append(e, [r |-> op.r, t |-> op.t]), res |-> [k |-> "ok"]]
    [] op.o = "Add"    -> [e |-> Append(e, [r |-> op.r, t |-> op.t]), res |-> [k |-> "ok"]]
    [] op.o = "Count"  -> [e |-> e, res |-> [k |-> "n", n |-> Len(e)]]
    [] op.o = "First"  -> [e |-> e, res |-> IF e = <<>> THEN [k |-> "zero"] ELSE [k |-> "entry", r |-> e[1].r, t |-> e[1].t]]

\* is (e, op, e2, res) a step of the specification?
StepOK(e, op, e2, res) ==
  IF op.o = "Set" THEN SetOK(e, op.r, op.t, e2) /\ res = [k |-> "ok"]
  ELSE ApplyOp(e, op).e = e2 /\ ApplyOp(e, op).res = res

\* equality of two lists without repeated tags: same set of tag/text pairs
PairSet(e) == {e[i] : i \in 1..Len(e)}
TagsDistinct(e) == \A i, j \in 1..Len(e) : i # j => e[i].r # e[j].r
EqF(a, b) == PairSet(a) = PairSet(b)

-----------------------------------------------------------------------------
VARIABLES e, res
vars == <<e, res>>

Init == e = <<>> /\ res = [k |-> "init"]

DetOps == {[o |-> "Get", r |-> r] : r \in Tags} \cup {[o |-> "Count"], [o |-> "First"]}
          \cup {[o |-> o, r |-> r, t |-> t] : o \in {"Append", "Add"}, r \in Tags, t \in Texts}

SeqsUpTo(n) == UNION {[1..k -> Entries] : k \in 0..n}

Det(op) == /\ (op.o \in {"Append", "Add"} => Len(e) < MaxLen)
           /\ e' = ApplyOp(e, op).e /\ res' = ApplyOp(e, op).res
SetAct(r, v) == /\ \E e2 \in SeqsUpTo(MaxLen) : SetOK(e, r, v, e2) /\ e' = e2
                /\ res' = [k |-> "ok"]

Next == (\E op \in DetOps : Det(op)) \/ (\E r \in Tags, v \in Texts : SetAct(r, v))
Spec == Init /\ [][Next]_vars

TypeOK == e \in SeqsUpTo(MaxLen)
CountInv == res.k = "n" => res.n = Len(e)
\* Set never touches other tags, never reorders, grows by at most one (action property over ALL steps)
FrameProp == [][Len(e') <= Len(e) + 1 /\ Len(e') >= Len(e)
                /\ \A i \in 1..Len(e) : e'[i].r = e[i].r]_vars
\* a Set-successor always exists below the bound (Set is total)
SetTotal == \A r \in Tags, v \in Texts : Len(e) < MaxLen => \E e2 \in SeqsUpTo(MaxLen) : SetOK(e, r, v, e2)
=============================================================================
