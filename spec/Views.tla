-------------------------------- MODULE Views --------------------------------
(***************************************************************************)
(* C08 -- typed views.  A conversion site reinterprets a pointer to struct *)
(* `from` as a pointer to struct `to`.  It is SAFE when `to` is a field-   *)
(* for-field prefix of `from`: not larger, and every field of `to` sits at *)
(* the same offset with the same type and size as the field of `from` at   *)
(* the same position, under the same name (Items and OrderedItems are the  *)
(* declared alias of the two collection families).                         *)
(*                                                                         *)
(* Layouts and sites are FACTS extracted from the current source tree by   *)
(* harness/layout.go (go/types, gc/amd64); TLC evaluates the rule on every *)
(* site, and checks that every struct's jsonld terms are exactly           *)
(* Vocab!Props (Object's rows repeated verbatim, then the own rows).       *)
(* The dynamic events come from executing every To* helper on every struct *)
(* type under the runtime pointer checker.                                 *)
(***************************************************************************)
EXTENDS Vocab, Json, IOUtils

FieldOK(f, t) == f.type = t.type /\ f.off = t.off /\ f.size = t.size /\ Alias(f.name) = Alias(t.name)
SiteWhy(L, s) ==
  IF s.from \notin DOMAIN L \/ s.to \notin DOMAIN L THEN <<"unknown-type">>
  ELSE LET F == L[s.from].fields  T == L[s.to].fields IN
       (IF L[s.to].size <= L[s.from].size THEN <<>> ELSE <<"wider">>)
       \o (IF Len(T) <= Len(F) THEN <<>> ELSE <<"more-fields">>)
       \o (IF \A i \in 1..(IF Len(T) <= Len(F) THEN Len(T) ELSE Len(F)) : FieldOK(F[i], T[i]) THEN <<>> ELSE <<"field-mismatch">>)

\* the kinds Go can tell apart by field type
GoKind(k) == CASE k \in StringKinds -> "str" [] k = "uint" -> "int" [] OTHER -> k
\* the struct must carry every vocabulary row, in order, with a compatible kind (fields the vocabulary does not know are tolerated)
RECURSIVE FirstMissing(_, _, _, _)
FirstMissing(P, rows, i, j) ==
  IF i > Len(P) THEN 0
  ELSE IF j > Len(rows) THEN i
  ELSE IF rows[j].t = P[i].t /\ rows[j].k = GoKind(P[i].k) THEN FirstMissing(P, rows, i + 1, j + 1)
  ELSE FirstMissing(P, rows, i, j + 1)
VocabWhy(g, rows) ==
  LET P == Props(g) m == FirstMissing(P, rows, 1, 1) IN
  IF m = 0 THEN <<>> ELSE <<"term:" \o g \o "." \o P[m].t>>

\* dynamic observation of one helper x source type x form.  A helper may refuse; what it presents must be faithful;
\* Growth (outside the statement, reported as observations): a callback helper that neither calls back nor reports an
\* error ("silent"), or that swallows the callback's error ("error-lost"); and the vocabulary says which views EXIST -- X is a view of
\* g exactly when X's rows are a prefix of g's (items/orderedItems being one row) -- so a refusal of such a view is noted.
Target(fn) == SubSeq(fn, 3, Len(fn))
ViewExists(fn, g) == IsViewOf(Target(fn), g)
ViewWhy(ev) ==
  IF ev.outcome = "refused" THEN (IF ViewExists(ev.fn, ev.from) THEN <<"note:refuses-a-view-the-vocabulary-has">> ELSE <<>>)
  ELSE IF ev.outcome \in {"silent", "error-lost"} THEN <<"note:" \o ev.outcome>>
  ELSE IF ev.outcome # "view" THEN <<ev.outcome>>
  ELSE IF ev.bad = <<>> THEN <<>> ELSE <<"unfaithful">>

-----------------------------------------------------------------------------
VARIABLES l, bad, done
Facts == JsonDeserialize("c08_facts.json")
DynTr == ndJsonDeserialize("c08_dyn.ndjson")
Tr == [i \in 1..Len(Facts.sites) |-> [ev |-> "site", s |-> Facts.sites[i]]]
      \o [i \in 1..Len(Facts.vocab) |-> [ev |-> "vocab", g |-> Facts.vocab[i].g, rows |-> Facts.vocab[i].rows]]
      \o DynTr
Chunk == 50
Why(ev) == IF ev.ev = "site" THEN SiteWhy(Facts.layouts, ev.s)
           ELSE IF ev.ev = "vocab" THEN VocabWhy(ev.g, ev.rows)
           ELSE ViewWhy(ev)
INSTANCE EventJudge
Spec == JInit /\ [][JStep \/ JFinish]_jvars
\* the specification-side obligation: every struct is Object's rows followed by its own
ASSUME \A g \in ObjectGoTypes : SubSeq(Props(g), 1, Len(ObjectProps)) = ObjectProps
=============================================================================
