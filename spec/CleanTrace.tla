----------------------------- MODULE CleanTrace -----------------------------
(* Leg V for C11.  Events: {"ev":"clean","pre":v,"post":v,"jsonleaks":N,"panic":B} -- jsonleaks = bto/bcc members found in the *)
(* serialised cleaned value along the walked terms (counted by the harness with encoding/json).                               *)
EXTENDS Clean, Json, IOUtils
VARIABLES l, bad, done
Tr == ndJsonDeserialize("c11_trace.ndjson")
Chunk == 100
Why(ev) ==
  IF ev.panic THEN <<[t |-> "*", sym |-> "panic"]>>
  ELSE LET want == CleanV(ev.pre)
           d == Diff(want, ev.post)
       IN (IF Leaks(ev.post) = {} THEN <<>> ELSE <<[t |-> CHOOSE t \in Leaks(ev.post) : TRUE, sym |-> "private-recipients-left"]>>)
          \o (IF ev.jsonleaks = 0 THEN <<>> ELSE <<[t |-> "*", sym |-> "bto/bcc-in-serialised-form"]>>)
          \o (IF d = <<>> \/ Leaks(ev.post) # {} THEN <<>> ELSE <<[t |-> d[1].t, sym |-> "frame:" \o d[1].sym]>>)
INSTANCE EventJudge
TraceSpec == JInit /\ orig = NilItem /\ val = NilItem /\ phase = "judge"
             /\ [][(JStep \/ JFinish) /\ UNCHANGED vars]_<<jvars, vars>>
=============================================================================
