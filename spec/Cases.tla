-------------------------------- MODULE Cases --------------------------------
(***************************************************************************)
(* Case families over the value domain: the bounded-exhaustive part of the *)
(* input-quantified properties (C01 C03 C05 C09 C12 ...).                   *)
(*   OneField  : a base value of each Go type with exactly one further      *)
(*               property set, for every admissible shape of its kind       *)
(*   Nested1   : every Go type embedded in item, list and activity-object   *)
(*               positions, each with one own property set                  *)
(*   Pairwise  : two properties set at once (interference)                  *)
(*   Full      : every property set                                          *)
(* A case is [lab |-> label record, v |-> item].                            *)
(***************************************************************************)
EXTENDS Values

Base == "https://example.com/"
IdOf(g, n) == Base \o g \o "/" \o ToString(n)

\* minimal well-formed value of a Go type: id and type only
BaseP(g, n) == [id |-> Str(IdOf(g, n)), type |-> Str(DefaultType(g))]
BaseV(g, n) == Obj(g, BaseP(g, n))
With(v, t, x) == [v EXCEPT !.p = [u \in DOMAIN v.p \cup {t} |-> IF u = t THEN x ELSE v.p[u]]]

I1 == Iri(Base \o "actors/alice")
I2 == Iri(Base \o "actors/bob")
I3 == Iri("https://www.w3.org/ns/activitystreams#Public")
Note1 == With(BaseV("Object", 7), "name", Nlv(<<LR(NilTag, "a note")>>))
Person1 == With(BaseV("Actor", 8), "inbox", Iri(IdOf("Actor", 8) \o "/inbox"))
Untyped == Obj("Object", [name |-> Nlv(<<LR(NilTag, "untyped")>>)])                 \* no id, no type
IdOnly == Obj("Object", [id |-> Str(IdOf("Object", 9))])
Link1 == Obj("Link", [type |-> Str("Mention"), href |-> Str(Base \o "actors/carol"), name |-> Nlv(<<LR(NilTag, "@carol")>>)])

T(s, ns, off) == [k |-> "time", s |-> s, ns |-> ns, off |-> off]
Dur(s) == [k |-> "dur", s |-> s, ns |-> 0]
Int(n) == [k |-> "int", n |-> n]
Flt(f) == [k |-> "float", f |-> f]

\* own-term used to make an embedded value of each Go type distinguishable
OwnTermValue(g) ==
  CASE g = "Object" -> <<"summary", Nlv(<<LR(NilTag, "sum")>>)>>
    [] g = "Actor" -> <<"outbox", Iri(Base \o "outbox")>>
    [] g = "Activity" -> <<"object", I2>>
    [] g = "IntransitiveActivity" -> <<"target", I2>>
    [] g = "Question" -> <<"oneOf", I2>>
    [] g = "Collection" -> <<"items", ListOf(<<I1, I2>>)>>
    [] g = "CollectionPage" -> <<"next", I2>>
    [] g = "OrderedCollection" -> <<"orderedItems", ListOf(<<I2, I1>>)>>
    [] g = "OrderedCollectionPage" -> <<"prev", I2>>
    [] g = "Place" -> <<"latitude", Flt("45.5")>>
    [] g = "Profile" -> <<"describes", I2>>
    [] g = "Relationship" -> <<"subject", I2>>
    [] g = "Tombstone" -> <<"formerType", Str("Note")>>
    [] g = "Link" -> <<"href", Str(Base \o "href")>>
Embedded(g, n) == LET ov == OwnTermValue(g) IN With(BaseV(g, n), ov[1], ov[2])

\* ---- shapes per kind: <<shape-name, value>> --------------------------------
ItemShapes(deep) ==
  { <<"iri", I1>>, <<"iri-quoted", Iri(Base \o "a\"b\\c")>>, <<"iri-fragment", Iri("https://example.com#me")>>, <<"iri-port-query-fragment", Iri("https://example.com:8443?x=1#k")>>, <<"object", Note1>>, <<"actor", Person1>>, <<"untyped", Untyped>>, <<"id-only", IdOnly>>, <<"link", Link1>>,
    <<"list2-iri", ListOf(<<I1, I2>>)>>, <<"list1-iri", ListOf(<<I1>>)>>, <<"list-mixed", ListOf(<<I1, Note1, Link1>>)>>,
    <<"list1-object", ListOf(<<Note1>>)>> }
  \cup (IF deep THEN {<<"embedded-" \o g, Embedded(g, 11)>> : g \in GoTypes} ELSE {})
ItemsShapes == { <<"list1-iri", ListOf(<<I1>>)>>, <<"list2-iri", ListOf(<<I1, I3>>)>>, <<"list1-object", ListOf(<<Person1>>)>>,
                 <<"list-mixed", ListOf(<<I2, Note1, Link1>>)>>, <<"list2-object", ListOf(<<Note1, Person1>>)>> }
NlvShapes == { <<"plain", Nlv(<<LR(NilTag, "hello")>>)>>, <<"tagged1", Nlv(<<LR("en", "hello")>>)>>,
               <<"multi2", Nlv(<<LR("en", "hello"), LR("fr", "salut")>>)>>,
               <<"multi3", Nlv(<<LR("en", "hello"), LR("fr", "salut"), LR("de", "hallo")>>)>>,
               <<"mixed", Nlv(<<LR(NilTag, "hello"), LR("fr", "salut")>>)>>,       \* an untagged value next to a tagged one ("-" key of a language map)
               <<"part-empty", Nlv(<<LR("en", "hello"), LR("fr", "")>>)>> }         \* one language carries the empty text: "nameMap":{"en":"hello","fr":""}
TimeShapes(gob) == { <<"utc", T(1700000000, 0, 0)>>, <<"plus2", T(1700003600, 0, 7200)>>, <<"minus7", T(1600000000, 0, 0 - 25200)>>,
                     <<"pre-epoch", T(0 - 1000000000, 0, 0)>>, <<"y2038", T(2147483647, 0, 3600)>>, <<"epoch-plus1", T(1, 0, 0)>>,
                     <<"no-seconds", T(1700000040, 0, 0)>> }      \* a whole minute, which ActivityStreams lets a document write without the seconds: "2023-11-14T22:14Z"
                   \cup (IF gob THEN {<<"nanos", T(1700000001, 123456789, 3600)>>} ELSE {})
DurShapes == { <<"pos", Dur(5)>>, <<"neg", Dur(0 - 5)>>, <<"hour", Dur(3725)>>, <<"day", Dur(86400)>>, <<"neg3days", Dur(0 - 259200)>>, <<"dayhour", Dur(90000)>>,
              <<"d28", Dur(2419200)>>, <<"neg29d", Dur(0 - 2505600)>>, <<"d340", Dur(29376000)>>, <<"d400h5", Dur(34578000)>> }   \* beyond the lengths of a month and a year
UintShapes == { <<"one", Int(1)>>, <<"big", Int(123456)>>, <<"max31", Int(2147483647)>> }
IntShapes == { <<"pos", Int(12)>>, <<"neg", Int(0 - 12)>>, <<"max31", Int(2147483647)>>, <<"min31", Int(0 - 2147483647)>> }
FloatShapes == { <<"pos", Flt("36.75")>>, <<"neg", Flt("-122.5")>>, <<"small", Flt("0.000001")>>, <<"whole", Flt("100")>>, <<"precise", Flt("-122.4194155")>>, <<"tiny", Flt("0.0000001")>>,
                <<"tiny-digits", Flt("0.000000247164515977853")>>, <<"huge-digits", Flt("1234567890123456800000")>> }   \* exponent form for an independent writer
StrShapes(kind, t) ==
  CASE kind = "mime" -> {<<"mime", Str("text/html")>>, <<"mime-param", Str("text/markdown; charset=\"utf-8\"")>>}   \* a quoted parameter value
    [] kind = "type" -> {<<"type", Str("Note")>>}
    [] kind = "iri" -> {<<"iri", Str(Base \o "rel/" \o t)>>}
    [] kind = "lang" -> {<<"lang", Str("en")>>}
    [] OTHER -> {<<"str", Str("miles")>>, <<"str-quoted", Str("5 \"nautical\" miles \\ C:\\x")>>}     \* quotes and backslashes in a plain string
SourceShapes == { <<"plain", [k |-> "source", p |-> [content |-> Nlv(<<LR(NilTag, "# md")>>), mediaType |-> Str("text/markdown")]]>>,
                  <<"content-only", [k |-> "source", p |-> [content |-> Nlv(<<LR(NilTag, "src")>>)]]>>,
                  <<"multi", [k |-> "source", p |-> [content |-> Nlv(<<LR("en", "src"), LR("fr", "srcfr")>>), mediaType |-> Str("text/plain")]]>>,
                  <<"empty-content", [k |-> "source", p |-> [content |-> Nlv(<<LR(NilTag, "")>>), mediaType |-> Str("text/markdown")]]>>,   \* what "content":"" decodes to
                  <<"mime-param", [k |-> "source", p |-> [content |-> Nlv(<<LR(NilTag, "# md")>>), mediaType |-> Str("text/markdown; charset=\"utf-8\"")]]>> }
EndpointsShapes == { <<"ep-" \o EndpointsProps[i].t, [k |-> "endpoints", p |-> [x \in {EndpointsProps[i].t} |-> I1]]>> : i \in 1..Len(EndpointsProps) }
                   \cup { <<"ep-all", [k |-> "endpoints", p |-> [x \in Terms(EndpointsProps) |-> Iri(Base \o "ep/" \o x)]]>> }
PubKeyShapes == { <<"id-only", [k |-> "pubkey", p |-> [id |-> Str(Base \o "actor#main-key")]]>>, <<"owner-only", [k |-> "pubkey", p |-> [owner |-> Str(Base \o "actor")]]>>,
                  <<"pem-only", [k |-> "pubkey", p |-> [publicKeyPem |-> Str("-----BEGIN PUBLIC KEY-----MIIB-----END PUBLIC KEY-----")]]>>,
                  <<"pem-lines", [k |-> "pubkey", p |-> [id |-> Str(Base \o "actor#main-key"), owner |-> Str(Base \o "actor"),
                                                          publicKeyPem |-> Str("-----BEGIN PUBLIC KEY-----\nMIIBIjANBgkqhkiG9w0BAQEFAAOCAQ8A+/=\n-----END PUBLIC KEY-----\n")]]>>,
                  <<"full", [k |-> "pubkey", p |-> [id |-> Str(Base \o "actor#main-key"), owner |-> Str(Base \o "actor"), publicKeyPem |-> Str("-----BEGIN PUBLIC KEY-----MIIB-----END PUBLIC KEY-----")]]>> }

Shapes(kind, t, deep, gob) ==
  CASE kind = "item" -> ItemShapes(deep)
    [] kind = "items" -> ItemsShapes
    [] kind = "nlv" -> NlvShapes
    [] kind = "time" -> TimeShapes(gob)
    [] kind = "dur" -> DurShapes
    [] kind = "uint" -> UintShapes
    [] kind = "int" -> IntShapes
    [] kind = "float" -> FloatShapes
    [] kind = "bool" -> {<<"true", [k |-> "bool", b |-> TRUE]>>}
    [] kind = "source" -> SourceShapes
    [] kind = "endpoints" -> EndpointsShapes
    [] kind = "pubkey" -> PubKeyShapes
    [] OTHER -> StrShapes(kind, t)

OwnRows(g) == {r \in {Props(g)[i] : i \in 1..Len(Props(g))} : r.t \notin {"id", "type"}}

Case(fam, g, t, shape, v) == [lab |-> [fam |-> fam, g |-> g, t |-> t, shape |-> shape], v |-> v]

OneField(gob) ==
  UNION {UNION {{Case("one", g, r.t, sh[1], With(BaseV(g, 1), r.t, sh[2])) : sh \in Shapes(r.k, r.t, g \in {"Object", "Activity"}, gob)}
                : r \in OwnRows(g)} : g \in GoTypes}

\* every Go type embedded in: a single-item position, a list position, an activity's object, nested twice
Nested1 ==
  UNION {{ Case("nested", "Object", "attachment", "in-item:" \o g, With(BaseV("Object", 2), "attachment", Embedded(g, 21))),
           Case("nested", "Object", "tag", "in-list:" \o g, With(BaseV("Object", 2), "tag", ListOf(<<I1, Embedded(g, 22)>>))),
           Case("nested", "Activity", "object", "in-object:" \o g, With(BaseV("Activity", 2), "object", Embedded(g, 23))),
           Case("nested", "Collection", "items", "in-items:" \o g, With(BaseV("Collection", 2), "items", ListOf(<<Embedded(g, 24), I2>>))),
           Case("nested", "Activity", "object", "nested2:" \o g,
                With(BaseV("Activity", 2), "object", With(BaseV("Activity", 25), "object", Embedded(g, 26)))) }
         : g \in GoTypes}

\* every vocabulary type name on the struct it maps to, top level and embedded (by pointer and by value)
NamedV(n, k) == With(With(BaseV(GoType(n), k), "type", Str(n)), "name", Nlv(<<LR(NilTag, "named " \o n)>>))
\* a struct that carries the type name of a larger struct it is a prefix of: what ObjectNew(PlaceType), IntransitiveActivityNew(id, QuestionType)
\* and (*Object).UnmarshalJSON of a Person document build.  Both codecs must store it; the package-level decoders return the larger struct.
CrossPairs == {<<"Object", n>> : n \in {"Place", "Profile", "Relationship", "Tombstone", "Person", "Create", "Arrive", "Question",
                                       "Collection", "OrderedCollection", "CollectionPage", "OrderedCollectionPage"}}
              \cup {<<"IntransitiveActivity", "Question">>, <<"IntransitiveActivity", "Create">>, <<"Collection", "CollectionPage">>,
                    <<"OrderedCollection", "OrderedCollectionPage">>}
CrossV(g, n, k) == With(With(BaseV(g, k), "type", Str(n)), "name", Nlv(<<LR(NilTag, g \o " named " \o n)>>))
CrossFamily ==
  UNION {{ Case("cross", c[1], "type", "as:" \o c[2], CrossV(c[1], c[2], 16)),
           Case("cross", "Activity", "object", "in-object:" \o c[1] \o "-as:" \o c[2], With(BaseV("Activity", 2), "object", CrossV(c[1], c[2], 17))),
           Case("cross", "Object", "tag", "in-list:" \o c[1] \o "-as:" \o c[2], With(BaseV("Object", 2), "tag", ListOf(<<CrossV(c[1], c[2], 18), I1>>))) }
         : c \in CrossPairs}
AllTypeNames ==
  UNION {{ Case("typename", GoType(n), "type", n, NamedV(n, 12)),
           Case("typename", "Object", "attachment", "embedded:" \o n, With(BaseV("Object", 2), "attachment", NamedV(n, 13))),
           Case("typename", "Activity", "object", "by-value:" \o n, With(BaseV("Activity", 2), "object", [NamedV(n, 14) EXCEPT !.ptr = FALSE])),
           Case("typename", "Object", "tag", "in-list:" \o n, With(BaseV("Object", 2), "tag", ListOf(<<NamedV(n, 15), I1>>))) }
         : n \in TypeNames}

FirstShape(r, gob) == CHOOSE sh \in Shapes(r.k, r.t, FALSE, gob) : TRUE

\* embedded objects without id and type whose ONLY property is r (in a single-item position and in a list)
UntypedOne(gob) ==
  UNION {UNION {{ Case("untyped", "Object", r.t, "untyped-in-item:" \o sh[1], With(BaseV("Object", 2), "attachment", Obj("Object", [x \in {r.t} |-> sh[2]]))),
                  Case("untyped", "Object", r.t, "untyped-in-list:" \o sh[1],
                       With(BaseV("Object", 2), "tag", ListOf(<<I1, Obj("Object", [x \in {r.t} |-> sh[2]])>>))) }
                : sh \in Shapes(r.k, r.t, FALSE, gob)}
         : r \in OwnRows("Object")}
Pairwise(G, gob) ==
  UNION {{Case("pair", g, r1.t \o "+" \o r2.t, "pair",
               With(With(BaseV(g, 3), r1.t, FirstShape(r1, gob)[2]), r2.t, FirstShape(r2, gob)[2]))
          : r1 \in OwnRows(g), r2 \in OwnRows(g)} : g \in G}

RECURSIVE SetAll(_, _, _)
SetAll(v, rows, gob) == IF rows = {} THEN v
                        ELSE LET r == CHOOSE x \in rows : TRUE IN SetAll(With(v, r.t, FirstShape(r, gob)[2]), rows \ {r}, gob)
Full(gob) == {Case("full", g, "*", "full", SetAll(BaseV(g, 4), OwnRows(g), gob)) : g \in GoTypes}

\* top-level values that are not objects
TopLevel == { Case("top", "IRI", "top", "iri", I1), Case("top", "IRI", "top", "iri-ampersand", Iri(Base \o "search?a=1&b=2")),
              Case("top", "IRI", "top", "iri-quoted", Iri(Base \o "a\"b\\c")), Case("top", "IRI", "top", "iri-fragment", Iri("https://example.com#me")), Case("top", "ItemCollection", "top", "list-mixed", ListOf(<<I1, Note1, Person1>>)),
              Case("top", "ItemCollection", "top", "list2-iri", ListOf(<<I1, I2>>)),
              Case("top", "IRIs", "top", "iris2", [k |-> "iris", e |-> <<I1.iri, I2.iri>>]) }
=============================================================================
