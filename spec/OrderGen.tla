------------------------------ MODULE OrderGen ------------------------------
(* Leg G for C17: all ordered pairs of items with the model's verdict, and   *)
(* lists to sort.  Zones and Go types are added by the harness (they are     *)
(* presentations); the judge ignores them.                                   *)
EXTENDS Order, Json, IOUtils, SequencesExt, FiniteSetsExt

Pairs == {[a |-> a, b |-> b] : a \in Items, b \in Items}
Lists == UNION {[1..n -> SortItems] : n \in 0..MaxLen}
GenInit == xs = <<>> /\ orig = <<>>
GenNext == FALSE /\ UNCHANGED vars
ASSUME ndJsonSerialize("c17_pairs.ndjson", SetToSeq(Pairs))
ASSUME ndJsonSerialize("c17_lists.ndjson", SetToSeq({[xs |-> s] : s \in Lists}))
=============================================================================
