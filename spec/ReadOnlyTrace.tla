--------------------------- MODULE ReadOnlyTrace ---------------------------
(* Leg V for C12.  Events:                                                                                     *)
(*  {"ev":"frame","op":..,"g":..,"changed":B,"panic":B}   deep snapshot (incl. spare capacity) before/after one operation  *)
(*  {"ev":"sched","root":..,"ops":[a,b],"same":B,"panic":B}  concurrent results equal the sequential ones                   *)
(*  {"ev":"race","where":..}                                 a report of the Go race detector                                *)
EXTENDS ReadOnly, Json, IOUtils
VARIABLES l, bad, done
Tr == ndJsonDeserialize("c12_trace.ndjson")
Chunk == 500
Why(ev) ==
  IF ev.ev = "frame" THEN (IF ev.panic THEN <<"panic">> ELSE <<>>) \o (IF ev.changed THEN <<"argument-modified">> ELSE <<>>)
  ELSE IF ev.ev = "sched" THEN (IF ev.panic THEN <<"panic">> ELSE <<>>) \o (IF ev.same THEN <<>> ELSE <<"differs-from-sequential">>)
  ELSE IF ev.ev = "race" THEN <<"data-race">>
  ELSE <<"unknown-event">>
INSTANCE EventJudge
TraceSpec == JInit /\ heap = Heap0 /\ prog = <<>> /\ pc = <<>> /\ seen = <<>>
             /\ [][(JStep \/ JFinish) /\ UNCHANGED vars]_<<jvars, vars>>
=============================================================================
