----------------------------- MODULE NilMatrix -----------------------------
(***************************************************************************)
(* C20 -- the nil item and the nil pointer to every vocabulary struct are  *)
(* ordinary values of the domain: every helper must be ENABLED on them and *)
(* answer with its neutral result or an error.                             *)
(*                                                                         *)
(* The matrix: Helpers x NilKinds x Positions.  A cell's specified outcome *)
(* is a set of allowed observations; there is no transition to "panic".    *)
(***************************************************************************)
EXTENDS Vocab

NilKinds == {"nil"} \cup {"*" \o g : g \in GoTypes} \cup {"*IRI", "*IRIs", "*ItemCollection"}    \* the pointer forms of the non-struct items too
Positions == {"top", "member", "property"}

\* helpers that take the item itself
TopHelpers == {"IsNil", "NotEmpty", "ItemsEqual-nil", "ItemsEqual-self", "ItemsEqual-value", "ItemsEqual-value-rev",
               "IsObject", "IsLink", "IsIRI", "IsItemCollection",
               "OnObject", "OnActor", "OnActivity", "OnIntransitiveActivity", "OnQuestion", "OnLink", "OnCollection",
               "OnCollectionPage", "OnOrderedCollection", "OnOrderedCollectionPage", "OnCollectionIntf", "OnItemCollection", "OnIRIs",
               "OnPlace", "OnProfile", "OnRelationship", "OnTombstone", "OnItem",
               "ToObject", "ToActor", "ToActivity", "ToIntransitiveActivity", "ToQuestion", "ToLink", "ToCollection", "ToCollectionPage",
               "ToOrderedCollection", "ToOrderedCollectionPage", "ToItemCollection", "ToIRIs", "ToPlace", "ToProfile",
               "ToRelationship", "ToTombstone",
               "Flatten", "FlattenToIRI", "FlattenProperties", "CleanRecipients", "DerefItem",
               "ItemOrderTimestamp-left", "ItemOrderTimestamp-right",
               "ItemCollection.Contains", "ItemCollection.Append", "ItemCollection.Remove", "IRIs.Contains", "IRIs.Append",
               "Collection.Contains", "OrderedCollection.Append",
               "CopyItemProperties-to", "CopyItemProperties-from", "MarshalJSON", "GobEncode",
               "CollectionPath.IRI", "CollectionPath.Of", "CollectionPath.AddTo",
               \* the Equals METHOD of a valid value, given the nil item as its argument
               "Object.Equals", "Actor.Equals", "Activity.Equals", "IntransitiveActivity.Equals", "Link.Equals", "Collection.Equals",
               "OrderedCollection.Equals", "CollectionPage.Equals", "OrderedCollectionPage.Equals", "ItemCollection.Equals", "IRI.ItemsMatch",
               "Collection.Append", "JSONWriteIRIProp", "CollectionPageNew", "OrderedCollectionPageNew"}    \* (an Append of nothing must not add a member: the harness reports "grew")
EqualsMethods == {"Object.Equals", "Actor.Equals", "Activity.Equals", "IntransitiveActivity.Equals", "Link.Equals", "Collection.Equals",
                  "OrderedCollection.Equals", "CollectionPage.Equals", "OrderedCollectionPage.Equals", "ItemCollection.Equals"}
\* helpers applied to an otherwise valid value holding the nil item (as list member / as property)
ContainerHelpers == {"MarshalJSON", "GobEncode", "ItemsEqual-self", "FlattenProperties", "CleanRecipients", "Recipients",
                     "ItemCollectionDeduplication", "Contains-valid", "Append-valid", "Remove-valid", "DerefItem", "OnItem", "NotEmpty", "Format",
                     "ToIRIs", "OnIRIs", "CollectionPath.IRI", "CollectionPath.Of"}

HelpersAt(pos) == IF pos = "top" THEN TopHelpers ELSE ContainerHelpers

\* what a cell may observe: class of the outcome and what the callback saw
Allowed(h, nk, pos) ==
  LET any == {"neutral", "error"} IN
  CASE pos = "top" /\ h = "IsNil" -> {"true"}
    [] pos = "top" /\ h = "NotEmpty" -> {"false"}
    [] pos = "top" /\ h \in {"ItemsEqual-nil", "ItemsEqual-self"} -> {"true"}              \* equality treats it as nil
    [] pos = "top" /\ h \in {"ItemsEqual-value", "ItemsEqual-value-rev"} \cup EqualsMethods -> {"false"}   \* a value with an id never equals nothing
    [] OTHER -> any \cup {"true", "false"}
CallbackAllowed == {"none", "nil", "valid"}        \* never a pointer into unrelated memory ("wild")

-----------------------------------------------------------------------------
VARIABLES cell, out
vars == <<cell, out>>
Init == cell = [h |-> "none", nk |-> "nil", pos |-> "top"] /\ out = [class |-> "none", cb |-> "none"]
Call(h, nk, pos) == /\ cell' = [h |-> h, nk |-> nk, pos |-> pos]
                    /\ \E c \in Allowed(h, nk, pos), cb \in CallbackAllowed : out' = [class |-> c, cb |-> cb]
Next == \E pos \in Positions : \E h \in HelpersAt(pos), nk \in NilKinds : Call(h, nk, pos)
Spec == Init /\ [][Next]_vars
\* totality: every cell of the matrix has a specified outcome, none of which is a crash
Total == \A pos \in Positions : \A h \in HelpersAt(pos), nk \in NilKinds : Allowed(h, nk, pos) # {} /\ "panic" \notin Allowed(h, nk, pos)
NeverWild == out.cb \in CallbackAllowed \cup {"none"}
=============================================================================
