---------------------------- MODULE EventJudge ----------------------------
(***************************************************************************)
(* Generic trace-validation skeleton for events that are independent of    *)
(* each other (one call of a pure operation each).  The instantiating      *)
(* module supplies                                                         *)
(*   Tr      -- the recorded events (ndJsonDeserialize of a file)          *)
(*   Why(ev) -- <<>> when the event is a behaviour the specification       *)
(*              allows, otherwise a sequence of reason strings             *)
(* and declares the variables l (cursor), bad (rejected events), done.     *)
(* The cursor machine consumes Chunk events per step so that TLC's         *)
(* per-state overhead is amortised; every event is still evaluated.        *)
(***************************************************************************)
EXTENDS Naturals, Sequences, TLC, Json

CONSTANTS Tr, Why(_), Chunk
VARIABLES l, bad, done

jvars == <<l, bad, done>>

Min(a, b) == IF a < b THEN a ELSE b

RECURSIVE Scan(_, _, _)
Scan(i, hi, acc) ==
  IF i > hi THEN acc
  ELSE LET w == Why(Tr[i])
       IN Scan(i + 1, hi, IF w = <<>> THEN acc ELSE Append(acc, [l |-> i, why |-> w]))

JInit == l = 1 /\ bad = <<>> /\ done = FALSE

JStep == /\ l <= Len(Tr)
         /\ LET hi == Min(Len(Tr), l + Chunk - 1)
            IN bad' = Scan(l, hi, bad) /\ l' = hi + 1
         /\ UNCHANGED done

JFinish == /\ l = Len(Tr) + 1 /\ ~done /\ done' = TRUE
           /\ PrintT("@@ " \o ToJson([consumed |-> l - 1, bad |-> bad]))
           /\ UNCHANGED <<l, bad>>

JudgeSpec == JInit /\ [][JStep \/ JFinish]_jvars
=============================================================================
