----------------------------- MODULE Recipients -----------------------------
(***************************************************************************)
(* C10 -- recipient computation.                                           *)
(*                                                                         *)
(* An addressing entry is [w |-> who, f |-> form]: `who` is the identity   *)
(* of the addressee (0 = a nil entry), `form` how it is written (plain     *)
(* IRI, https variant, upper-case host, trailing slash, embedded actor,    *)
(* embedded object).  Identity is `who` -- all forms of one who are        *)
(* equivalent IRIs ignoring scheme (IRI.tla).                              *)
(*                                                                         *)
(* State: the five addressing lists, the actor (for intransitive           *)
(* activities and questions), the object (for Block), the class of the     *)
(* value, and the returned list.  One action: Recipients.                  *)
(***************************************************************************)
EXTENDS Naturals, Sequences, FiniteSets, TLC

Nil == [w |-> 0, f |-> "nil"]
IsNilE(e) == e.w = 0
Classes == {"plain", "activity", "block", "intransitive", "question"}
HasActorStep(c) == c \in {"intransitive", "question"}

Whos(s) == {s[i].w : i \in {j \in 1..Len(s) : ~IsNilE(s[j])}}

\* scan one list given the addressees seen so far: nil stays, first mention stays, repeats go
RECURSIVE ScanList(_, _, _, _)
ScanList(s, i, seen, acc) ==
  IF i > Len(s) THEN [keep |-> acc, seen |-> seen]
  ELSE IF IsNilE(s[i]) THEN ScanList(s, i + 1, seen, Append(acc, s[i]))
  ELSE IF \E k \in 1..Len(seen) : seen[k] = s[i].w THEN ScanList(s, i + 1, seen, acc)
  ELSE ScanList(s, i + 1, Append(seen, s[i].w), Append(acc, s[i]))

Without(s, w) == SelectSeq(s, LAMBDA e : e.w # w)

\* the specified outcome of Recipients() on a value st = [class,to,cc,bto,bcc,aud,actor,object]
Outcome(st) ==
  LET blk == st.class = "block" /\ ~IsNilE(st.object)
      strip(s) == IF blk THEN Without(s, st.object.w) ELSE s
      a  == ScanList(strip(st.to), 1, <<>>, <<>>)
      b  == ScanList(strip(st.cc), 1, a.seen, <<>>)
      c  == ScanList(strip(st.bto), 1, b.seen, <<>>)
      d  == ScanList(strip(st.bcc), 1, c.seen, <<>>)
      e  == IF HasActorStep(st.class) THEN ScanList(<<st.actor>>, 1, d.seen, <<>>) ELSE d
      f  == ScanList(strip(st.aud), 1, e.seen, <<>>)
  IN [to |-> a.keep, cc |-> b.keep, bto |-> c.keep, bcc |-> d.keep, ret |-> f.seen, aud |-> strip(st.aud)]

-----------------------------------------------------------------------------
CONSTANTS Pool,      \* entries the model distributes over the lists
          MaxTotal   \* total number of entries over the five lists
VARIABLES st, ret, phase
vars == <<st, ret, phase>>

Lists(n) == UNION {[1..k -> Pool] : k \in 0..n}
Total(s) == Len(s.to) + Len(s.cc) + Len(s.bto) + Len(s.bcc) + Len(s.aud)

\* every way to cut a sequence of <= MaxTotal entries into the five lists
Cut(all, c1, c2, c3, c4) == [to |-> SubSeq(all, 1, c1), cc |-> SubSeq(all, c1 + 1, c2), bto |-> SubSeq(all, c2 + 1, c3),
                             bcc |-> SubSeq(all, c3 + 1, c4), aud |-> SubSeq(all, c4 + 1, Len(all))]
Cuts(n) == {c \in (0..n) \X (0..n) \X (0..n) \X (0..n) : c[1] <= c[2] /\ c[2] <= c[3] /\ c[3] <= c[4]}
ActorsFor(cl) == IF HasActorStep(cl) THEN Pool ELSE {Nil}
ObjectsFor(cl) == IF cl = "block" THEN Pool ELSE {Nil}
Heads == UNION {[class : {cl}, actor : ActorsFor(cl), object : ObjectsFor(cl)] : cl \in Classes}
Init == /\ \E all \in Lists(MaxTotal) : \E c \in Cuts(Len(all)) : \E h \in Heads :
             st = h @@ Cut(all, c[1], c[2], c[3], c[4])
        /\ ret = <<>> /\ phase = "built"

Recipients == /\ phase = "built"
              /\ LET o == Outcome(st) IN
                   /\ st' = [st EXCEPT !.to = o.to, !.cc = o.cc, !.bto = o.bto, !.bcc = o.bcc, !.aud = o.aud]
                   /\ ret' = o.ret
              /\ phase' = "done"
Next == Recipients
Spec == Init /\ [][Next]_vars

\* ---- the property's clauses, as invariants of the post-state --------------
AllWho(s) == Whos(s.to) \cup Whos(s.cc) \cup Whos(s.bto) \cup Whos(s.bcc) \cup Whos(s.aud)
             \cup (IF HasActorStep(s.class) /\ ~IsNilE(s.actor) THEN {s.actor.w} ELSE {})
RetSet == {ret[i] : i \in 1..Len(ret)}
NilCount(s) == Cardinality({i \in 1..Len(s) : IsNilE(s[i])})
Four(s) == s.to \o s.cc \o s.bto \o s.bcc
IsSubSeq(a, b) ==   \* a is a subsequence of b (greedy match)
  LET RECURSIVE M(_, _)
      M(i, j) == IF i > Len(a) THEN TRUE ELSE IF j > Len(b) THEN FALSE
                 ELSE IF a[i] = b[j] THEN M(i + 1, j + 1) ELSE M(i, j + 1)
  IN M(1, 1)

VARIABLE st0          \* history: the value before the call
hvars == <<vars, st0>>
HInit == Init /\ st0 = st
HNext == Next /\ UNCHANGED st0
HSpec == HInit /\ [][HNext]_hvars

Blocked == IF st0.class = "block" /\ ~IsNilE(st0.object) THEN {st0.object.w} ELSE {}
ExactlyOnce == phase = "done" => /\ \A i, j \in 1..Len(ret) : i # j => ret[i] # ret[j]
                                  /\ RetSet = AllWho(st0) \ Blocked                      \* nobody lost, nobody invented
NoRepeatInFour == phase = "done" =>
                    \A i, j \in 1..Len(Four(st)) : (i # j /\ ~IsNilE(Four(st)[i])) => Four(st)[i].w # Four(st)[j].w
Survivors == phase = "done" => /\ IsSubSeq(st.to, st0.to) /\ IsSubSeq(st.cc, st0.cc)
                                /\ IsSubSeq(st.bto, st0.bto) /\ IsSubSeq(st.bcc, st0.bcc)
NilsStay == phase = "done" => /\ NilCount(st.to) = NilCount(st0.to) /\ NilCount(st.cc) = NilCount(st0.cc)
                               /\ NilCount(st.bto) = NilCount(st0.bto) /\ NilCount(st.bcc) = NilCount(st0.bcc)
BlockGone == phase = "done" => \A w \in Blocked : w \notin RetSet /\ w \notin AllWho(st)
\* first-mention order: ret lists addressees in the order their first mention is met
FirstMention == phase = "done" =>
  LET scan == Four(st0) \o (IF HasActorStep(st0.class) THEN <<st0.actor>> ELSE <<>>) \o st0.aud
      firstIdx(w) == CHOOSE i \in 1..Len(scan) : scan[i].w = w /\ \A j \in 1..(i - 1) : scan[j].w # w
  IN \A i, j \in 1..Len(ret) : i < j => firstIdx(ret[i]) < firstIdx(ret[j])
=============================================================================
