------------------------------- MODULE JsonRT -------------------------------
(***************************************************************************)
(* C01 / C03 -- the encode->decode pipeline as a machine over one value.   *)
(*   phase: "built" -> "encoded" -> "decoded"                              *)
(* The wire form is abstract here (JsonCodec.tla models it as a tagged     *)
(* tree); what this module fixes is the observable contract:               *)
(*   decoded value = NF(original)       (JSON,  C01)                       *)
(*   decoded value = GF(original)       (gob,   C03)                       *)
(* and that both normal forms are idempotent projections.                  *)
(***************************************************************************)
EXTENDS Cases

CONSTANTS Universe        \* the set of cases the model explores
VARIABLES phase, codec, orig, val
vars == <<phase, codec, orig, val>>

Init == /\ phase = "built" /\ codec \in {"json", "gob"}
        /\ \E c \in Universe : orig = c.v /\ val = c.v
Encode == phase = "built" /\ phase' = "encoded" /\ UNCHANGED <<codec, orig, val>>
Decode == /\ phase = "encoded" /\ phase' = "decoded"
          /\ val' = IF codec = "json" THEN NFItem(val) ELSE GFItem(val)
          /\ UNCHANGED <<codec, orig>>
\* a second trip through the same codec
Again == phase = "decoded" /\ phase' = "built2" /\ UNCHANGED <<codec, orig, val>>
Encode2 == phase = "built2" /\ phase' = "encoded2" /\ UNCHANGED <<codec, orig, val>>
Decode2 == /\ phase = "encoded2" /\ phase' = "decoded2"
           /\ val' = IF codec = "json" THEN NFItem(val) ELSE GFItem(val)
           /\ UNCHANGED <<codec, orig>>
Next == Encode \/ Decode \/ Again \/ Encode2 \/ Decode2
Spec == Init /\ [][Next]_vars

\* the normal forms are idempotent: a second round trip changes nothing
Idempotent == phase = "decoded2" => val = (IF codec = "json" THEN NFItem(orig) ELSE GFItem(orig))
\* no property vanishes or appears in the normal form
SameTerms == (val.k = "obj" /\ orig.k = "obj") => DOMAIN val.p = DOMAIN orig.p /\ val.g \in {orig.g, HomeOf(orig)}     \* (the struct the type name names, when it is a larger one)
\* JSON normal form is coarser than the gob one
Coarser == phase = "decoded" /\ codec = "gob" => NFItem(val) = NFItem(orig)
=============================================================================
