-------------------------------- MODULE IRI --------------------------------
(***************************************************************************)
(* C14 -- IRI equality as an equivalence with the documented               *)
(* insensitivities.                                                        *)
(*                                                                         *)
(* An IRI *presentation* is a record of component presentations            *)
(*   sch  : scheme string in some letter case                              *)
(*   host : host[:port] string in some letter case                         *)
(*   path : [segs : Seq(Seg), ts : BOOLEAN]  (segments, trailing slash)    *)
(*   query: [raw : BOOLEAN, ps : Seq([k, v])] (raw = a bare "?" is shown)  *)
(*   frag : fragment string ("" = none)                                    *)
(* Str(i) is the concrete text; Norm(i, cs) is the normal form; Equiv is   *)
(* defined COMPONENT-WISE the way the documentation words it (case folded, *)
(* dot segments and trailing slash cleaned, parameters as a multiset,      *)
(* fragment ignored, scheme only when asked).  TLC checks that Equiv is an *)
(* equivalence relation and coincides with equality of normal forms.       *)
(* AsBuiltQueryEq documents the one-directional comparison of the pinned   *)
(* tree; TLC shows it is not symmetric (the predicted finding).            *)
(***************************************************************************)
EXTENDS Naturals, Sequences, FiniteSets, TLC

\* ---- letter case on the small alphabets used ------------------------------
LowerOf(s) == CASE s = "HTTP" -> "http" [] s = "HTTPS" -> "https" [] s = "Http" -> "http"
                [] s = "EXAMPLE.COM" -> "example.com" [] s = "Example.Com" -> "example.com"
                [] s = "EXAMPLE.COM:8080" -> "example.com:8080"
                [] s = "EXAMPLE.ORG" -> "example.org"
                [] s = "A" -> "a" [] s = "B" -> "b" [] s = "Inbox" -> "inbox"
                [] OTHER -> s

Segs == {"a", "A", "b", ".", "..", "inbox"}

\* ---- path cleaning: resolve "." and "..", fold case ------------------------
RECURSIVE CleanFrom(_, _, _)
CleanFrom(segs, i, stack) ==
  IF i > Len(segs) THEN stack
  ELSE LET s == segs[i] IN
       IF s = "." \/ s = "" THEN CleanFrom(segs, i + 1, stack)   \* "." and empty segments (repeated slashes) vanish
       ELSE IF s = ".." THEN CleanFrom(segs, i + 1, IF stack = <<>> THEN stack ELSE SubSeq(stack, 1, Len(stack) - 1))
       ELSE CleanFrom(segs, i + 1, Append(stack, LowerOf(s)))
CleanPath(p) == CleanFrom(p.segs, 1, <<>>)       \* trailing slash and "" vs "/" vanish

\* ---- query: multiset of k=v ------------------------------------------------
Count(ps, kv) == Cardinality({i \in 1..Len(ps) : ps[i] = kv})
QueryEq(q1, q2) == /\ Len(q1.ps) = Len(q2.ps)
                   /\ \A i \in 1..Len(q1.ps) : Count(q1.ps, q1.ps[i]) = Count(q2.ps, q1.ps[i])
\* the pinned tree: same keys, same number of values per key, every value of q1 occurs in q2
Vals(ps, k) == {ps[i].v : i \in {j \in 1..Len(ps) : ps[j].k = k}}
NVals(ps, k) == Cardinality({j \in 1..Len(ps) : ps[j].k = k})
Keys(ps) == {ps[i].k : i \in 1..Len(ps)}
AsBuiltQueryEq(q1, q2) == /\ Keys(q1.ps) = Keys(q2.ps)
                          /\ \A k \in Keys(q1.ps) : NVals(q1.ps, k) = NVals(q2.ps, k) /\ Vals(q1.ps, k) \subseteq Vals(q2.ps, k)

\* canonical name of the bag: insertion sort of "k=v" strings
KV(e) == e.k \o "=" \o e.v
RECURSIVE SortPs(_)
Rank(e) == CASE KV(e) = "x=1" -> 1 [] KV(e) = "x=2" -> 2 [] KV(e) = "y=2" -> 3 [] KV(e) = "y=3" -> 4 [] OTHER -> 9
SortPs(ps) == IF ps = <<>> THEN <<>>
              ELSE LET m == CHOOSE i \in 1..Len(ps) : \A j \in 1..Len(ps) : Rank(ps[i]) <= Rank(ps[j])
                       rest == [j \in 1..(Len(ps) - 1) |-> IF j < m THEN ps[j] ELSE ps[j + 1]]
                   IN <<ps[m]>> \o SortPs(rest)

\* ---- the relation -----------------------------------------------------------
Equiv(a, b, cs) ==
  /\ cs => LowerOf(a.sch) = LowerOf(b.sch)
  /\ LowerOf(a.host) = LowerOf(b.host)
  /\ CleanPath(a.path) = CleanPath(b.path)
  /\ QueryEq(a.query, b.query)

Norm(i, cs) == [sch |-> IF cs THEN LowerOf(i.sch) ELSE "*", host |-> LowerOf(i.host),
                path |-> CleanPath(i.path), query |-> SortPs(i.query.ps)]

\* ---- concrete text ----------------------------------------------------------
RECURSIVE JoinSegs(_, _)
JoinSegs(segs, i) == IF i > Len(segs) THEN "" ELSE "/" \o segs[i] \o JoinSegs(segs, i + 1)
PathStr(p) == JoinSegs(p.segs, 1) \o (IF p.ts THEN "/" ELSE "")
RECURSIVE JoinPs(_, _)
JoinPs(ps, i) == IF i > Len(ps) THEN "" ELSE (IF i > 1 THEN "&" ELSE "") \o KV(ps[i]) \o JoinPs(ps, i + 1)
QueryStr(q) == IF q.ps = <<>> THEN (IF q.raw THEN "?" ELSE "") ELSE "?" \o JoinPs(q.ps, 1)
Str(i) == i.sch \o "://" \o i.host \o PathStr(i.path) \o QueryStr(i.query) \o (IF i.frag = "" THEN "" ELSE "#" \o i.frag)

\* ---- component spaces (bounded) --------------------------------------------
SchemeP == {"http", "https", "HTTP", "Http"}
HostP == {"example.com", "EXAMPLE.COM", "Example.Com", "example.org", "example.com:8080", "EXAMPLE.COM:8080", "example.com:80", "www.example.com", "example.com:443", "[::1]", "[::1]:8080", "[::2]:8080"}
PathP(n) == [segs : UNION {[1..k -> Segs] : k \in 0..n}, ts : BOOLEAN]
Params == [k : {"x", "y"}, v : {"1", "2"}] \ {[k |-> "y", v |-> "1"]}
QueryP(n) == [raw : BOOLEAN, ps : UNION {[1..k -> Params] : k \in 0..n}]
FragP == {"", "f", "g"}

\* ---- laws, checked by TLC component-wise (the product is an equivalence iff every factor is)
PathEqv(p, q) == CleanPath(p) = CleanPath(q)
ASSUME \A p \in PathP(2) : PathEqv(p, p)
ASSUME \A q1, q2 \in QueryP(2) : QueryEq(q1, q2) <=> QueryEq(q2, q1)
ASSUME \A q1, q2, q3 \in QueryP(2) : QueryEq(q1, q2) /\ QueryEq(q2, q3) => QueryEq(q1, q3)
ASSUME \A q1, q2 \in QueryP(2) : QueryEq(q1, q2) <=> SortPs(q1.ps) = SortPs(q2.ps)
\* the as-built comparison is NOT symmetric: TLC finds the witness
ASSUME \E q1, q2 \in QueryP(2) : AsBuiltQueryEq(q1, q2) /\ ~AsBuiltQueryEq(q2, q1)

-----------------------------------------------------------------------------
(* Growth beyond C14's statement (judged as observations): AddPath and Contains, AS BUILT.                                *)
(*  AddPath(i, els): i without its trailing slash, then "/" and the cleaned elements (dot segments resolved inside els    *)
(*    only -- they never climb into i's own path; letter case kept); no elements left => a single trailing slash.         *)
(*  Contains(i, w, cs): same scheme when asked (url.Parse folds its case), same host NAME (port ignored, letter case      *)
(*    significant), and w's cleaned path occurs in i's cleaned path (letter case significant; "" occurs in everything,    *)
(*    "/" in every non-empty path).  On the segment alphabet used no segment is a prefix of another, so "occurs as a      *)
(*    substring" is "occurs as a run of whole segments".                                                                  *)
RECURSIVE RawCleanFrom(_, _, _)
RawCleanFrom(segs, i, stack) ==
  IF i > Len(segs) THEN stack
  ELSE LET x == segs[i] IN
       IF x = "." \/ x = "" THEN RawCleanFrom(segs, i + 1, stack)
       ELSE IF x = ".." THEN RawCleanFrom(segs, i + 1, IF stack = <<>> THEN stack ELSE SubSeq(stack, 1, Len(stack) - 1))
       ELSE RawCleanFrom(segs, i + 1, Append(stack, x))
RawClean(segs) == RawCleanFrom(segs, 1, <<>>)
AddPathF(i, els) == LET c == RawClean(els) IN [i EXCEPT !.path = [segs |-> i.path.segs \o c, ts |-> c = <<>>]]
HostName(h) == CASE h \in {"example.com:8080", "example.com:80", "example.com:443"} -> "example.com"
                 [] h = "EXAMPLE.COM:8080" -> "EXAMPLE.COM"
                 [] h \in {"[::1]", "[::1]:8080", "[::2]:8080"} -> "["          \* as built: everything after the first colon is "the port"
                 [] OTHER -> h
HasPath(p) == p.segs # <<>> \/ p.ts
IsRun(a, b) == \E k \in 0..(Len(b) - Len(a)) : \A j \in 1..Len(a) : b[k + j] = a[j]      \* a occurs in b as a run
PathOccurs(pw, p) == IF ~HasPath(pw) THEN TRUE
                     ELSE IF ~HasPath(p) THEN FALSE
                     ELSE IsRun(RawClean(pw.segs), RawClean(p.segs))
ContainsF(i, w, cs) == /\ cs => LowerOf(i.sch) = LowerOf(w.sch)
                       /\ HostName(i.host) = HostName(w.host)
                       /\ PathOccurs(w.path, i.path)
\* laws of the as-built operations on the bounded spaces
PathPG == [segs : UNION {[1..k -> {"a", "A", "b", ".", ".."}] : k \in 0..2}, ts : BOOLEAN]
ElsG == UNION {[1..k -> {"a", "B", ".", ".."}] : k \in 0..2}
Mini(p) == [sch |-> "https", host |-> "example.com", path |-> p, query |-> [raw |-> FALSE, ps |-> <<>>], frag |-> ""]
\* a child contains its parent, never climbs above it, and adding nothing is the identity up to equivalence
ASSUME \A p \in PathPG, e \in ElsG : ContainsF(AddPathF(Mini(p), e), Mini(p), TRUE)
ASSUME \A p \in PathPG, e \in ElsG : LET c == CleanPath(p) r == CleanPath(AddPathF(Mini(p), e).path) IN Len(c) <= Len(r) /\ SubSeq(r, 1, Len(c)) = c
ASSUME \A p \in PathPG : Equiv(AddPathF(Mini(p), <<>>), Mini(p), TRUE)
ASSUME \A p \in PathPG : ContainsF(Mini(p), Mini(p), TRUE)
\* mutual containment implies equivalence
ASSUME \A p, q \in PathPG : ContainsF(Mini(p), Mini(q), TRUE) /\ ContainsF(Mini(q), Mini(p), TRUE) => Equiv(Mini(p), Mini(q), TRUE)
\* NOT a law (TLC finds the witness): containment does not respect the equivalence (letter case, "" vs "/")
ASSUME \E p, q \in PathPG : Equiv(Mini(p), Mini(q), TRUE) /\ ~ContainsF(Mini(p), Mini(q), TRUE)

-----------------------------------------------------------------------------
(* A machine over IRI lists: IRIs.Append adds an IRI unless an equivalent    *)
(* one (ignoring scheme) is present; membership agrees with Equiv.           *)
CONSTANTS Pool            \* a finite set of presentations used by the machine
VARIABLES lst, res
vars == <<lst, res>>
MemberF(s, x) == \E i \in 1..Len(s) : Equiv(s[i], x, FALSE)
AppendF(s, x) == IF MemberF(s, x) THEN s ELSE Append(s, x)
Init == lst = <<>> /\ res = FALSE
AppendAct(x) == lst' = AppendF(lst, x) /\ res' = res
ContainsAct(x) == res' = MemberF(lst, x) /\ lst' = lst
Next == \E x \in Pool : AppendAct(x) \/ ContainsAct(x)
Spec == Init /\ [][Next]_vars
ClassesDistinct == \A i, j \in 1..Len(lst) : i # j => ~Equiv(lst[i], lst[j], FALSE)
NormDistinct == \A i, j \in 1..Len(lst) : i # j => Norm(lst[i], FALSE) # Norm(lst[j], FALSE)
=============================================================================
