---------------------------- MODULE CollPathGen ----------------------------
(* Leg G for C15: owners (as presentations + text), every collection name,   *)
(* nested joins, and the object/actor helper cases.                          *)
EXTENDS CollPath, Json, IOUtils, SequencesExt, FiniteSetsExt

OSegs == {"a", "A", "b", "inbox", "likes", "a%20b"}
OwnerP == [sch : {"http", "https"}, host : {"example.com", "example.com:8080", "EXAMPLE.COM"},
           path : [segs : UNION {[1..k -> OSegs] : k \in 0..2}, ts : BOOLEAN], query : {NoQuery}, frag : {""}]

Explicits(c) == {[k |-> "none"], [k |-> "nil-pointer"], [k |-> "empty-iri"],      \* nil-like values are "not present": the built IRI is due
                 [k |-> "iri", iri |-> [sch |-> "https", host |-> "example.org", path |-> [segs |-> <<"custom", c>>, ts |-> FALSE], query |-> NoQuery, frag |-> ""]],
                 [k |-> "object", iri |-> [sch |-> "https", host |-> "example.org", path |-> [segs |-> <<"b", "A">>, ts |-> FALSE], query |-> NoQuery, frag |-> ""]]}

JoinCases == {[o |-> o, os |-> Str(o), c |-> c] : o \in OwnerP, c \in Names}
OfOwners == {o \in OwnerP : o.host = "example.com" /\ Len(o.path.segs) <= 1}
\* the type names a value of each kind may carry (the generic names included); the rule does not depend on them
TypeNamesOf(kd) == CASE kd = "actor" -> {"Person", "Service", "Actor", ""} [] kd = "object" -> {"Note", "Object", ""} [] OTHER -> {"-"}    \* "" = no type yet
OfCases == UNION {{[kind |-> kd, tn |-> tn, id |-> o, ids |-> Str(o), c |-> c, explicit |-> IF e.k \in {"none", "nil-pointer", "empty-iri"} THEN e ELSE [k |-> e.k, iri |-> e.iri, s |-> Str(e.iri)]]
                    : e \in (IF HasProp(kd, c) THEN Explicits(c) ELSE {[k |-> "none"]}), tn \in TypeNamesOf(kd)}
                  : kd \in {"object", "actor", "iri"}, o \in OfOwners, c \in Names}

GenInit == cur = (CHOOSE o \in OwnerP : TRUE) /\ stack = <<>> /\ lst = <<>> /\ res = FALSE
GenNext == FALSE /\ UNCHANGED <<cvars, vars>>
ASSUME ndJsonSerialize("c15_join.ndjson", SetToSeq(JoinCases))
ASSUME ndJsonSerialize("c15_of.ndjson", SetToSeq(OfCases))
=============================================================================
