----------------------------- MODULE PagesTrace -----------------------------
(* Events: {"ev":"page","kind":..,"parent":item,"got":item,"panic":""} *)
EXTENDS Pages, Json, IOUtils
VARIABLES l, bad, done
Tr == ndJsonDeserialize("pages_trace.ndjson")
Chunk == 100
Why(ev) == IF ev.panic # "" THEN <<"panic">>
           ELSE LET d == Diff(PageOf(ev.kind, ev.parent), ev.got) IN
                IF d = <<>> THEN <<>> ELSE <<d[1].t \o ":" \o d[1].sym>>
INSTANCE EventJudge
TraceSpec == JInit /\ parent = NilItem /\ page = NilItem /\ [][(JStep \/ JFinish) /\ UNCHANGED pvars]_<<jvars, pvars>>
=============================================================================
