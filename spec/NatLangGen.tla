---------------------------- MODULE NatLangGen ----------------------------
(* Leg G for C19: every (contents, op) pair of the NatLang machine up to     *)
(* MaxLen entries, and every pair of tag-distinct lists for equality.        *)
EXTENDS NatLang, Json, IOUtils, SequencesExt, FiniteSetsExt

States == SeqsUpTo(MaxLen)
AllOps == DetOps \cup {[o |-> "Set", r |-> r, t |-> t] : r \in Tags, t \in Texts}
Cases == {[pre |-> s, op |-> op] : s \in States, op \in AllOps}

\* equality is also exercised on entries with an empty text
EqEntries == [r : Tags, t : Texts \cup {""}]
EqStates == UNION {[1..k -> EqEntries] : k \in 0..2} \cup {s \in States : Len(s) = 3}
Distinct == {s \in EqStates : TagsDistinct(s)}
EqCases == {[a |-> a, b |-> b] : a \in Distinct, b \in Distinct}

GenInit == e = <<>> /\ res = [k |-> "init"]
GenNext == FALSE /\ UNCHANGED vars
ASSUME ndJsonSerialize("c19_cases.ndjson", SetToSeq(Cases))
ASSUME ndJsonSerialize("c19_eqcases.ndjson", SetToSeq(EqCases))
=============================================================================
