-------------------------- MODULE DestructureTrace --------------------------
(* Events: {"ev":"on","h":..,"item":..,"failAt":n,"form":..,"calls":[labels],"err":B,"panic":""} *)
EXTENDS DestructureModel, Json, IOUtils
VARIABLES l, bad, done
Tr == ndJsonDeserialize("destr_trace.ndjson")
Chunk == 500
Why(ev) ==
  IF ev.panic # "" THEN <<"panic">>
  ELSE LET e == Expect(HelperOf(ev.h), ev.item, ev.failAt) IN
       (IF ev.calls = e.calls THEN <<>> ELSE <<"calls">>) \o (IF ev.err = e.err THEN <<>> ELSE <<IF e.err THEN "error-lost" ELSE "spurious-error">>)
INSTANCE EventJudge
TraceSpec == JInit /\ DFrozen /\ [][(JStep \/ JFinish) /\ UNCHANGED dvars]_<<jvars, dvars>>
=============================================================================
