------------------------------ MODULE CopyGen ------------------------------
(* Leg G for C18: (to, from) pairs: per supported type, every term x {set, unset}^2, term pairs, and the guard cases. *)
EXTENDS Copy, Json, IOUtils, SequencesExt, FiniteSetsExt
CopyTypes == {"Object", "Place", "Profile", "Relationship", "Tombstone", "Actor", "Collection", "CollectionPage",
              "OrderedCollection", "OrderedCollectionPage"}
AltItem(v) == IF v.k = "iri" THEN Iri(Base \o "alt/1") ELSE IF v.k = "list" THEN ListOf(<<Iri(Base \o "alt/2"), Iri(Base \o "alt/3")>>) ELSE Iri(Base \o "alt/4")
AltVal(kind, v) ==
  CASE kind \in {"item", "items"} -> AltItem(v)
    [] kind = "nlv" -> Nlv(<<LR(NilTag, "alternative")>>)
    [] kind = "time" -> [v EXCEPT !.s = IF v.s > 2000000000 THEN v.s - 7200 ELSE v.s + 7200]
    [] kind = "dur" -> [v EXCEPT !.s = v.s + 60]
    [] kind \in {"uint", "int"} -> Int(77)
    [] kind = "float" -> Flt("1.5")
    [] kind = "mime" -> Str("text/plain")
    [] kind \in {"str", "type", "iri", "lang"} -> Str(v.s \o "-alt")
    [] kind = "source" -> [k |-> "source", p |-> [content |-> Nlv(<<LR(NilTag, "alt source")>>), mediaType |-> Str("text/plain")]]
    [] OTHER -> v
ValA(r) == FirstShape(r, FALSE)[2]
ValB(r) == AltVal(r.k, ValA(r))
Sides(g, r) == {[to |-> a, from |-> b] : a \in {BaseV(g, 1), With(BaseV(g, 1), r.t, ValA(r))}, b \in {BaseV(g, 1), With(BaseV(g, 1), r.t, ValB(r))}}
OneTerm == UNION {UNION {Sides(g, r) : r \in OwnRows(g)} : g \in CopyTypes}
\* two terms at once: to has r1, from has r2 (and the reverse arrangement comes from ranging over ordered pairs)
TwoTerms == UNION {{[to |-> With(With(BaseV(g, 1), r1.t, ValA(r1)), r2.t, ValA(r2)), from |-> With(BaseV(g, 1), r2.t, ValB(r2))]
                    : r1 \in OwnRows(g), r2 \in OwnRows(g)} : g \in {"Object", "Actor", "OrderedCollectionPage"}}
\* guards
OtherId(v) == With(v, "id", Str(Base \o "someone/else"))
GuardCases == UNION {{ [to |-> NilItem, from |-> Embedded(g, 1)], [to |-> Embedded(g, 1), from |-> NilItem],
                       [to |-> Embedded(g, 1), from |-> OtherId(Embedded(g, 1))],
                       [to |-> Embedded(g, 1), from |-> With(Embedded(g, 1), "type", Str("Video"))],
                       [to |-> With(Embedded(g, 1), "type", Str("Video")), from |-> Embedded(g, 1)] } : g \in CopyTypes}
              \cup {[to |-> Embedded(g, 1), from |-> Embedded(g, 1)] : g \in {"Activity", "IntransitiveActivity", "Question", "Link"}}
              \* one side untyped: a typed `to` must refuse an untyped `from`; an untyped `to` takes the type of `from`
              \cup UNION {{ [to |-> Embedded(g, 1), from |-> [Embedded(g, 1) EXCEPT !.p = Restrict(@, DOMAIN @ \ {"type"})]],
                            [to |-> [Embedded(g, 1) EXCEPT !.p = Restrict(@, DOMAIN @ \ {"type"})], from |-> Embedded(g, 1)] } : g \in {"Object", "Actor", "Place"}}
\* equivalent presentations of one id on the two sides: the merge must go through
WithId(v, id) == With(v, "id", Str(id))
VariantIds == UNION {{[to |-> WithId(With(BaseV(g, 1), "name", Nlv(<<LR(NilTag, "old")>>)), Base \o "same/1"),
                       from |-> WithId(With(BaseV(g, 1), "summary", Nlv(<<LR(NilTag, "new")>>)), v)]
                      : v \in {Base \o "same/1/", "http://example.com/same/1", "https://EXAMPLE.COM/same/1"}} : g \in {"Object", "Actor", "Collection"}}
\* `from` addresses the same recipients in several lists (and twice in one): its lists must arrive unchanged and stay unchanged
Shared == UNION {{[to |-> With(BaseV(g, 1), "to", ListOf(<<Iri(Base \o "old/1")>>)),
                   from |-> With(With(With(With(BaseV(g, 1), "to", ListOf(<<I1, I2, I1>>)), "cc", ListOf(<<I1, I3, Person1>>)),
                                      "bto", ListOf(<<I2>>)), "bcc", ListOf(<<I3, Iri(Base \o "hidden/1"), I1>>))]} : g \in {"Object", "Actor", "OrderedCollection", "Place"}}
\* an untyped `to` against a `from` with every property of its kind set: the type-specific properties must be merged too
NoType(v) == [v EXCEPT !.p = Restrict(@, DOMAIN @ \ {"type"})]
FullOf(g) == (CHOOSE c \in Full(FALSE) : c.lab.g = g).v
UntypedTo == {[to |-> NoType(BaseV(g, 4)), from |-> FullOf(g)] : g \in CopyTypes}
\* `from` holds a property that is present but EMPTY (an empty non-nil list or text list -- what the *New constructors and the gob
\* decoder leave behind -- or a typed nil pointer): empty is unset, `to` must keep what it has
EmptyOf(kind) == CASE kind = "item" -> [k |-> "nil", as |-> "Object"] [] kind = "items" -> ListOf(<<>>) [] kind = "nlv" -> Nlv(<<>>)
EmptyFrom == UNION {{[to |-> With(BaseV(g, 1), r.t, ValA(r)), from |-> With(BaseV(g, 1), r.t, EmptyOf(r.k))]
                     : r \in {x \in OwnRows(g) : x.k \in {"item", "items", "nlv"}}} : g \in {"Object", "Actor", "OrderedCollection", "CollectionPage"}}
             \* an item-valued property holding an EMPTY LIST (what "attachment":[] and "icon":[null] decode to)
             \cup UNION {{[to |-> With(BaseV(g, 1), r.t, ValA(r)), from |-> With(BaseV(g, 1), r.t, ListOf(<<>>))]
                     : r \in {x \in OwnRows(g) : x.k = "item"}} : g \in {"Object", "Actor", "OrderedCollection", "CollectionPage"}}
\* both sides untyped: the struct says what kind of value it is
BothUntyped == {[to |-> NoType(BaseV(g, 4)), from |-> NoType(FullOf(g))] : g \in CopyTypes}
\* the same item property set on both sides in different shapes of ONE identity (a bare IRI and the full object with that id):
\* equal for ItemsEqual, yet from's value is what `to` must end up with
SameIdOtherShape == UNION {UNION {{[to |-> With(BaseV(g, 1), t, Iri(Note1.p.id.s)), from |-> With(BaseV(g, 1), t, Note1)],
                                   [to |-> With(BaseV(g, 1), t, Note1), from |-> With(BaseV(g, 1), t, Iri(Note1.p.id.s))],
                                   [to |-> With(BaseV(g, 1), t, Note1), from |-> With(BaseV(g, 1), t, With(Note1, "summary", Nlv(<<LR(NilTag, "newer")>>)))]}
                                  : t \in {"attachment", "attributedTo", "context", "icon", "inReplyTo", "url"}}
                           : g \in {"Object", "Actor", "OrderedCollection"}}
AllCopy == SameIdOtherShape \cup EmptyFrom \cup BothUntyped \cup UntypedTo \cup Shared \cup OneTerm \cup TwoTerms \cup GuardCases \cup VariantIds
GenInit == mto = <<>> /\ mfrom = <<>> /\ phase = "gen"
GenNext == FALSE /\ UNCHANGED vars
ASSUME ndJsonSerialize("c18_cases.ndjson", SetToSeq(AllCopy))
=============================================================================
