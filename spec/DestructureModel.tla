-------------------------- MODULE DestructureModel --------------------------
EXTENDS Destructure
ModelMembers == {NilI, IriI("i1"), ObjI("Object", "o1"), ObjI("Activity", "a1"), ObjI("Question", "q1"), ObjI("Link", "l1"), ObjI("Place", "p1")}
ModelFailAts == {0, 1, 2}
=============================================================================
