------------------------------- MODULE TextGen -------------------------------
(* Leg G for C06/C02: all strings over Sigma up to length GenL, with their bytes. *)
EXTENDS Text, Json, IOUtils, SequencesExt, FiniteSetsExt
CONSTANTS GenL, WithBad
Alphabet == IF WithBad THEN Sigma \cup {BadUTF8} ELSE Sigma
\* long texts: one symbol repeated past typical buffer / length-prefix boundaries, with a hard symbol at the end
LongOf(s, t, n) == [i \in 1..n |-> IF i = n THEN t ELSE s]
LongStrings == {LongOf(s, t, n) : s \in {x \in Sigma : x.n \in {"a", "e-acute", "smile"}}, t \in {x \in Sigma : x.n \in {"quote", "bslash", "lf", "a"}}, n \in {127, 128, 255, 256, 257, 1025}}
GStrings == UNION {[1..k -> Alphabet] : k \in 0..GenL} \cup LongStrings
Names(str) == [i \in 1..Len(str) |-> str[i].n]
GenInit == held = <<>> /\ wire = <<>> /\ got = <<>> /\ phase = "gen"
GenNext == FALSE /\ UNCHANGED vars
\* texts beyond 64 KiB: a 1025-symbol string repeated 70 times by the harness (rep)
Huge == {s \in LongStrings : Len(s) = 1025 /\ s[1].n = "a"}
ASSUME ndJsonSerialize("text_strings.ndjson", SetToSeq({[syms |-> Names(s), hex |-> HexOf(s), rep |-> 1] : s \in GStrings}
                                                        \cup {[syms |-> Names(s), hex |-> HexOf(s), rep |-> 70] : s \in Huge}))
=============================================================================
