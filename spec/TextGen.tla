------------------------------- MODULE TextGen -------------------------------
(* Leg G for C06/C02: all strings over Sigma up to length GenL, with their bytes. *)
EXTENDS Text, Json, IOUtils, SequencesExt, FiniteSetsExt
CONSTANTS GenL, WithBad
Alphabet == IF WithBad THEN Sigma \cup {BadUTF8} ELSE Sigma
GStrings == UNION {[1..k -> Alphabet] : k \in 0..GenL}
Names(str) == [i \in 1..Len(str) |-> str[i].n]
GenInit == held = <<>> /\ wire = <<>> /\ got = <<>> /\ phase = "gen"
GenNext == FALSE /\ UNCHANGED vars
ASSUME ndJsonSerialize("text_strings.ndjson", SetToSeq({[syms |-> Names(s), hex |-> HexOf(s)] : s \in GStrings}))
=============================================================================
