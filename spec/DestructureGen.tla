--------------------------- MODULE DestructureGen ---------------------------
(* every helper x item x failing call of the generated family, with the summary's answer *)
EXTENDS DestructureModel, Json, IOUtils, SequencesExt, FiniteSetsExt
GenInner == ModelMembers \cup {ListI(<<m>>) : m \in ModelMembers} \cup {ListI(<<>>)}
Long == {ListI(<<ObjI("Object", "o1"), ObjI("Link", "l1"), ObjI("Activity", "a1"), ObjI("Object", "o2")>>),
         ListI(<<ObjI("Link", "l1"), ObjI("Link", "l2"), ObjI("Place", "p1"), NilI, ObjI("Place", "p2")>>),
         ListI(<<ObjI("Question", "q1"), ListI(<<ObjI("Activity", "a1"), ListI(<<ObjI("Question", "q2")>>)>>), ObjI("IntransitiveActivity", "n1")>>),
         ListI(<<ObjI("Tombstone", "t1"), ObjI("Profile", "f1"), ObjI("Relationship", "r1"), ObjI("Actor", "c1")>>),
         ListI(<<IriI("i1"), IriI("i2")>>)}
Singles == {ObjI(g, "s1") : g \in GoTypes}
GenItems == ModelMembers \cup Singles \cup {ListI(e) : e \in Seqs(GenInner, 2)} \cup Long
Cases == {[h |-> h.h, item |-> v, failAt |-> f, form |-> fm] : h \in Helpers, v \in GenItems, f \in {0, 1, 2}, fm \in {"value", "pointer"}}
ASSUME ndJsonSerialize("destr_cases.ndjson", SetToSeq(Cases))
ASSUME PrintT("@@ " \o ToJson([cases |-> Cardinality(Cases)]))
GenInit == DFrozen
GenNext == UNCHANGED dvars
=============================================================================
