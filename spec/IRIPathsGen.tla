----------------------------- MODULE IRIPathsGen -----------------------------
(* Growth leg of IRI.tla: AddPath and Contains cases with the specification's answers. *)
EXTENDS IRI, Json, IOUtils, SequencesExt, FiniteSetsExt
PP(segs, ts) == [segs |-> segs, ts |-> ts]
Paths == {PP(s, t) : s \in {<<>>, <<"a">>, <<"A">>, <<"a", "b">>, <<"b", "a">>, <<"a", "..", "b">>, <<".", "a", "inbox">>, <<"b", "a", "b">>}, t \in BOOLEAN}
Hosts == {"example.com", "EXAMPLE.COM", "example.com:8080", "example.org", "[::1]:8080"}
Mk(sc, h, p) == [sch |-> sc, host |-> h, path |-> p, query |-> [raw |-> FALSE, ps |-> <<>>], frag |-> ""]
Pres == {Mk(sc, h, p) : sc \in {"https", "HTTP"}, h \in Hosts, p \in Paths}
Els == {<<>>, <<"a">>, <<"B">>, <<"a", "b">>, <<"..", "a">>, <<"a", "..">>, <<".", "inbox">>, <<"a", "..", "..", "b">>, <<".">>}
AddCases == {[ev |-> "addpath", s |-> Str(i), ci |-> i, els |-> e, out |-> Str(AddPathF(i, e))] : i \in {x \in Pres : x.host = "example.com"}, e \in Els}
ConCases == {[ev |-> "contains", a |-> Str(i), b |-> Str(w), ci |-> i, cw |-> w, cs |-> cs, res |-> ContainsF(i, w, cs)] : i \in Pres, w \in Pres, cs \in BOOLEAN}
GenInit == lst = <<>> /\ res = FALSE
GenNext == FALSE /\ UNCHANGED vars
ASSUME ndJsonSerialize("c14_paths.ndjson", SetToSeq(AddCases) \o SetToSeq(ConCases))
ASSUME PrintT("@@ " \o ToJson([add |-> Cardinality(AddCases), contains |-> Cardinality(ConCases)]))
=============================================================================
