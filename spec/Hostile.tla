------------------------------- MODULE Hostile -------------------------------
(***************************************************************************)
(* C04 -- decoders are total.  The specification side is a GRAMMAR of      *)
(* hostile inputs and the outcome alphabet: a decode call ends in "value"  *)
(* or "error"; every follow-up on a returned value (inspect, compare,      *)
(* re-encode in both codecs, format) ends in "ok" or "error".  There is no *)
(* transition to a panic, a hang or a stack overflow, and the cost of a    *)
(* call is bounded linearly in the input length.                           *)
(*                                                                         *)
(* Hostile documents: a well-formed base document of some type in which    *)
(* ONE position (a property of the type, an unknown member, the type or id *)
(* itself, or the whole document) holds any JSON shape from HShapes.        *)
(* "deep" nodes are expanded by the harness to the given nesting depth.    *)
(***************************************************************************)
EXTENDS Cases

\* tagged-tree constructors (as in JsonCodec.tla)
JStr(s) == [j |-> "str", v |-> s]
JNum(n) == [j |-> "num", n |-> n]
JFlt(f) == [j |-> "num", f |-> f]
JBool(b) == [j |-> "bool", b |-> b]
JArr(e) == [j |-> "arr", e |-> e]
JObj(m) == [j |-> "obj", m |-> m]
Mem(k, n) == [k |-> k, n |-> n]

Deep(kind, n) == [j |-> "deep", kind |-> kind, n |-> n]
Raw(text) == [j |-> "raw", text |-> text]            \* literal bytes (huge numbers, NaN-ish tokens)
HShapes == {
  <<"null", [j |-> "null"]>>, <<"true", JBool(TRUE)>>, <<"false", JBool(FALSE)>>, <<"zero", JNum(0)>>, <<"int", JNum(42)>>, <<"neg", JNum(0 - 7)>>, <<"billion", JNum(1000000000)>>,
  <<"frac", JFlt("0.5")>>, <<"huge", Raw("1e400")>>, <<"neghuge", Raw("-1e400")>>, <<"bigint", Raw("123456789012345678901234567890")>>,
  <<"empty-str", JStr("")>>, <<"iri", JStr("https://example.com/x")>>, <<"word", JStr("not an iri")>>, <<"dash", JStr("-")>>,
  <<"quoted-json", JStr("{\"type\":\"Note\"}")>>,
  <<"pseudo-iri", JStr("IRI")>>, <<"pseudo-items", JStr("ItemCollection")>>, <<"pseudo-iris", JStr("IRICollection")>>,    \* the library's internal pseudo type names
  <<"empty-arr", JArr(<<>>)>>, <<"arr-str", JArr(<<JStr("https://example.com/a"), JStr("b")>>)>>, <<"arr-mixed", JArr(<<JNum(1), [j |-> "null"], JBool(TRUE), JArr(<<>>), JObj(<<>>)>>)>>,
  <<"arr-obj", JArr(<<JObj(<<Mem("type", JStr("Note")), Mem("id", JStr("https://example.com/n"))>>), JObj(<<Mem("type", JNum(5))>>)>>)>>,
  <<"arr-nested", JArr(<<JArr(<<JArr(<<JStr("x")>>)>>)>>)>>,
  <<"empty-obj", JObj(<<>>)>>, <<"typed-obj", JObj(<<Mem("type", JStr("Person")), Mem("id", JStr("https://example.com/p")), Mem("name", JNum(3))>>)>>,
  <<"wrong-kinds", JObj(<<Mem("type", JArr(<<JStr("Note")>>)), Mem("id", JObj(<<>>)), Mem("name", JArr(<<JNum(1)>>)), Mem("published", JNum(5)),
                          Mem("to", JNum(1)), Mem("totalItems", JStr("x")), Mem("closed", JStr("yes"))>>)>>,
  <<"langmap-odd", JObj(<<Mem("en", JNum(1)), Mem("", JStr("x")), Mem("-", [j |-> "null"]), Mem("fr", JObj(<<>>))>>)>>,
  <<"self-type", JObj(<<Mem("type", JStr("Collection")), Mem("items", JObj(<<Mem("type", JStr("Collection")), Mem("items", JStr("x"))>>))>>)>>,
  <<"deep-arr-50", Deep("arr", 50)>>, <<"deep-obj-50", Deep("obj", 50)>>, <<"deep-arr-300", Deep("arr", 300)>>, <<"deep-arr-301", Deep("arr", 301)>>,
  <<"deep-obj-301", Deep("obj", 301)>>, <<"deep-arr-10000", Deep("arr", 10000)>>, <<"deep-obj-10000", Deep("obj", 10000)>> }

\* chains: nesting along ALTERNATING item-valued terms, each node in one style (a decoder that visits a sub-document once per
\* role it could play -- object and link, item and collection -- doubles its work per level: exponential in a 2 kB input)
Chain(a, b, style, n) == [j |-> "chain", a |-> a, b |-> b, style |-> style, n |-> n]
ChainStyles == {"typed", "typeless", "href", "link", "activity", "person", "collection",
                "idless-activity", "idless-person", "idless-collection", "idless-ucollection", "idless-page", "idless-opage"}   \* without ids, comparison has to descend
ItemTermsOf(g) == {Props(g)[i].t : i \in {j \in 1..Len(Props(g)) : Props(g)[j].k \in {"item", "items"}}}
AllItemTerms == UNION {ItemTermsOf(g) : g \in GoTypes}
ChainPairTermsQuick == {"object", "url", "preview", "attachment", "tag", "items", "replies", "first"}
ChainPairTermsAll == ChainPairTermsQuick \cup {"orderedItems", "actor", "inReplyTo", "icon", "oneOf", "describes", "subject", "partOf", "instrument", "shares", "inbox"}
\* every item-valued term of the vocabulary nested in itself, and all ordered pairs of a smaller set
ChainPairs(tier) == {<<t, t>> : t \in AllItemTerms} \cup (LET S == IF tier = "thorough" THEN ChainPairTermsAll ELSE ChainPairTermsQuick IN S \X S)
ChainDepth == 60

\* wide documents: one list with thousands of members (distinct IRIs, small objects with ids, small id-less objects); the cost
\* of decoding must stay proportional to the length -- a per-member scan of what was read so far is quadratic
Wide(kind, n) == [j |-> "wide", kind |-> kind, n |-> n]
WideShapes == {<<"wide-iri", Wide("iri", 6000)>>, <<"wide-obj", Wide("obj", 3000)>>, <<"wide-idless", Wide("idless", 3000)>>}
WideMapShapes == {<<"wide-langmap", Wide("langmap", 8000)>>}                     \* a language map with thousands of tags
WideDocShapes == {<<"wide-members", Wide("members", 8000)>>, <<"wide-repeated", Wide("repeated", 8000)>>,   \* unknown members; one member repeated
                  <<"wide-escapes", Wide("escapes", 8000)>>}                        \* one text made of escape sequences
WideTerms == {"to", "cc", "tag", "attachment", "items", "orderedItems", "oneOf", "object", "audience", "url"}

TermsOf(g) == Terms(Props(g)) \cup {t \o "Map" : t \in {"name", "summary", "content"}} \cup {"@context", "zzz-unknown"}
BaseMembers(g) == <<Mem("id", JStr(IdOf(g, 1))), Mem("type", JStr(DefaultType(g)))>>
\* replace (or add) member t
WithMember(ms, t, n) == SelectSeq(ms, LAMBDA m : m.k # t) \o <<Mem(t, n)>>
\* a richer base: the hostile position sits next to well-formed lists, numbers and nested objects of the same value, so that
\* a decoder step which COMBINES two members (a count with a list, a flag with an instant ...) meets the hostile one
NoteM == JObj(<<Mem("id", JStr(Base \o "n/1")), Mem("type", JStr("Note")), Mem("content", JStr("c"))>>)
CollM(members) == <<Mem(members, JArr(<<JStr(Base \o "m/1"), NoteM, JStr(Base \o "m/2")>>)), Mem("totalItems", JNum(3)), Mem("first", JStr(Base \o "p/1")),
                    Mem("current", JStr(Base \o "p/1"))>>
PageM == <<Mem("partOf", JStr(Base \o "c")), Mem("next", JStr(Base \o "p/2")), Mem("prev", JStr(Base \o "p/0"))>>
OwnMembers(g) ==
  CASE g = "Collection" -> CollM("items") [] g = "CollectionPage" -> CollM("items") \o PageM
    [] g = "OrderedCollection" -> CollM("orderedItems") [] g = "OrderedCollectionPage" -> CollM("orderedItems") \o PageM \o <<Mem("startIndex", JNum(10))>>
    [] g \in {"Activity", "IntransitiveActivity"} -> <<Mem("actor", JStr(Base \o "a")), Mem("target", NoteM)>> \o (IF g = "Activity" THEN <<Mem("object", NoteM)>> ELSE <<>>)
    [] g = "Question" -> <<Mem("actor", JStr(Base \o "a")), Mem("oneOf", JArr(<<NoteM, JStr(Base \o "o/2")>>)), Mem("closed", JBool(TRUE))>>
    [] g = "Place" -> <<Mem("latitude", JFlt("45.5")), Mem("longitude", JFlt("-122.5")), Mem("radius", JNum(10)), Mem("units", JStr("km"))>>
    [] g = "Actor" -> <<Mem("inbox", JStr(Base \o "a/inbox")), Mem("preferredUsername", JStr("a")),
                        Mem("endpoints", JObj(<<Mem("sharedInbox", JStr(Base \o "inbox"))>>)),
                        Mem("publicKey", JObj(<<Mem("id", JStr(Base \o "a#k")), Mem("owner", JStr(Base \o "a")), Mem("publicKeyPem", JStr("pem"))>>))>>
    [] g = "Tombstone" -> <<Mem("formerType", JStr("Note")), Mem("deleted", JStr("2023-11-14T22:13:20Z"))>>
    [] g = "Profile" -> <<Mem("describes", NoteM)>>
    [] g = "Relationship" -> <<Mem("subject", JStr(Base \o "a")), Mem("object", NoteM), Mem("relationship", JStr(Base \o "rel"))>>
    [] OTHER -> <<>>
RichMembers(g) ==
  IF g = "Link" THEN BaseMembers(g) \o <<Mem("href", JStr(Base \o "h")), Mem("name", JStr("l")), Mem("width", JNum(640)), Mem("height", JNum(480)), Mem("preview", NoteM)>>
  ELSE BaseMembers(g) \o <<Mem("name", JStr("n")), Mem("contentMap", JObj(<<Mem("en", JStr("c")), Mem("fr", JStr("d"))>>)),
                            Mem("to", JArr(<<JStr(Base \o "a"), JStr(Base \o "b")>>)), Mem("published", JStr("2023-11-14T22:13:20Z")),
                            Mem("duration", JStr("PT5S")), Mem("tag", JArr(<<NoteM>>)), Mem("source", JObj(<<Mem("content", JStr("s")), Mem("mediaType", JStr("text/plain"))>>))>>
       \o OwnMembers(g)
\* replacing keeps the member's POSITION in the rich base (a decoder that reads members in document order sees the rest afterwards)
ReplaceMember(ms, t, n) == IF \E i \in 1..Len(ms) : ms[i].k = t THEN [i \in 1..Len(ms) |-> IF ms[i].k = t THEN Mem(t, n) ELSE ms[i]] ELSE ms \o <<Mem(t, n)>>
HostileDoc(g, t, shape) == JObj(WithMember(BaseMembers(g), t, shape))
RichDoc(g, t, shape) == JObj(ReplaceMember(RichMembers(g), t, shape))
RichShapes == {"null", "true", "zero", "int", "neg", "billion", "frac", "huge", "neghuge", "bigint", "empty-str", "word", "dash", "empty-arr", "empty-obj", "arr-mixed"}
Nest(d, how) == CASE how = "top" -> d
                    [] how = "in-object" -> JObj(<<Mem("id", JStr(Base \o "outer")), Mem("type", JStr("Create")), Mem("object", d)>>)
                    [] how = "in-list" -> JObj(<<Mem("id", JStr(Base \o "outer")), Mem("type", JStr("Note")), Mem("tag", JArr(<<JStr(Base \o "t1"), d>>))>>)
Nestings == {"top", "in-object", "in-list"}

Outcomes == {"value", "error"}
FollowUps == {"inspect", "compare", "reencode-json", "reencode-gob", "format"}
FollowOutcomes == {"ok", "error"}
\* cost bounds per decode call, linear in the input length (bytes): milliseconds and allocated bytes
MsBound(len) == 2000
\* (a corrupted gob length prefix makes encoding/gob itself allocate tens of MB before it fails: not attributed to the library)
\* (in kB: TLC integers are 32-bit, a runaway allocation counted in bytes would wrap around and pass)
AllocBoundKB(len) == 128000 + 4 * len

-----------------------------------------------------------------------------
CONSTANT Tier
VARIABLES cell, outcome, follow
vars == <<cell, outcome, follow>>
NestFor(g) == IF Tier = "thorough" \/ g \in {"Object", "Activity", "OrderedCollectionPage"} THEN Nestings ELSE {"top"}
CellTypes == IF Tier = "model" THEN {"Object", "Question", "Link", "OrderedCollectionPage"} ELSE GoTypes
Cells == UNION {{[g |-> g, t |-> t, shape |-> s[1], nest |-> n, base |-> "min"] : t \in TermsOf(g), s \in HShapes, n \in NestFor(g)} : g \in CellTypes}
         \cup UNION {{[g |-> g, t |-> t, shape |-> s, nest |-> n, base |-> "rich"] : t \in TermsOf(g), s \in RichShapes, n \in (IF Tier = "thorough" THEN Nestings ELSE {"top"})} : g \in CellTypes}
         \cup {[g |-> "top", t |-> "document", shape |-> s[1], nest |-> "top", base |-> "min"] : s \in HShapes}
         \cup UNION {{[g |-> g, t |-> t, shape |-> ws[1], nest |-> "top", base |-> "min"] : t \in WideTerms \cap Terms(Props(g)), ws \in WideShapes}
                      : g \in (IF Tier = "thorough" THEN CellTypes ELSE CellTypes \cap {"Object", "Activity", "OrderedCollection", "Question", "Link"})}
         \cup {[g |-> "top", t |-> "document", shape |-> ws[1], nest |-> "top", base |-> "min"] : ws \in WideShapes \cup WideDocShapes}
         \cup {[g |-> g, t |-> t, shape |-> ws[1], nest |-> "top", base |-> "min"] : g \in CellTypes \cap {"Object", "Actor", "Link"},
                                                                                  t \in {"nameMap", "contentMap", "summaryMap", "name"}, ws \in WideMapShapes}
         \cup (IF Tier = "model" THEN {} ELSE
               {[g |-> "chain", t |-> pr[1] \o "/" \o pr[2], shape |-> st, nest |-> "top", base |-> "min"] : pr \in ChainPairs(Tier), st \in ChainStyles})
ShapeNode(name) == (CHOOSE s \in HShapes \cup WideShapes \cup WideMapShapes \cup WideDocShapes : s[1] = name)[2]
SplitAt(t) == CHOOSE i \in 1..Len(t) : SubSeq(t, i, i) = "/"
DocOf(c) == IF c.g = "top" THEN ShapeNode(c.shape)
            ELSE IF c.g = "chain" THEN Chain(SubSeq(c.t, 1, SplitAt(c.t) - 1), SubSeq(c.t, SplitAt(c.t) + 1, Len(c.t)), c.shape, ChainDepth)
            ELSE Nest(IF c.base = "rich" THEN RichDoc(c.g, c.t, ShapeNode(c.shape)) ELSE HostileDoc(c.g, c.t, ShapeNode(c.shape)), c.nest)
Init == cell \in Cells /\ outcome = "none" /\ follow = [f |-> "none", o |-> "none"]
Decode == outcome = "none" /\ outcome' \in Outcomes /\ UNCHANGED <<cell, follow>>
Follow(f) == /\ outcome = "value" /\ \E o \in FollowOutcomes : follow' = [f |-> f, o |-> o]
             /\ UNCHANGED <<cell, outcome>>
Next == Decode \/ (\E f \in FollowUps : Follow(f))
Spec == Init /\ [][Next]_vars
Total == outcome \in Outcomes \cup {"none"} /\ follow.o \in FollowOutcomes \cup {"none"}
=============================================================================
