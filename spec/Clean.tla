-------------------------------- MODULE Clean --------------------------------
(***************************************************************************)
(* C11 -- Clean() strips bto/bcc from the value and from every object      *)
(* embedded BY POINTER along the walked properties, recursively and        *)
(* through lists, and touches nothing else.                                *)
(***************************************************************************)
EXTENDS Cases

Walked(g) == {"audience", "attachment", "icon", "image", "context", "generator", "attributedTo", "preview", "tag"}
             \cup (IF g = "Activity" THEN {"object", "actor", "target"} ELSE {})
             \cup (IF g \in {"IntransitiveActivity", "Question"} THEN {"actor", "target"} ELSE {})   \* activities too: they have no object
Private == {"bto", "bcc"}

RECURSIVE CleanV(_), CleanChild(_)
\* an item met along the walk: objects held by pointer are cleaned, lists are walked, the rest is left alone
CleanChild(x) ==
  CASE x.k = "obj" /\ x.ptr /\ x.g # "Link" -> CleanV(x)
    [] x.k = "list" -> ListOf([i \in 1..Len(x.e) |-> CleanChild(x.e[i])])
    [] OTHER -> x
CleanV(v) ==
  [v EXCEPT !.p = [t \in DOMAIN v.p \ Private |-> IF t \in Walked(v.g) THEN CleanChild(v.p[t]) ELSE v.p[t]]]

\* all private recipients still reachable along the walk (must be none afterwards)
RECURSIVE Leaks(_), LeaksChild(_)
LeaksChild(x) ==
  CASE x.k = "obj" /\ x.ptr /\ x.g # "Link" -> Leaks(x)
    [] x.k = "list" -> UNION {LeaksChild(x.e[i]) : i \in 1..Len(x.e)}
    [] OTHER -> {}
Leaks(v) == {t \in DOMAIN v.p : t \in Private} \cup UNION {LeaksChild(v.p[t]) : t \in DOMAIN v.p \cap Walked(v.g)}

-----------------------------------------------------------------------------
CONSTANT Universe
VARIABLES orig, val, phase
vars == <<orig, val, phase>>
Init == \E c \in Universe : orig = c.v /\ val = c.v /\ phase = "dirty"
CleanAct == phase = "dirty" /\ val' = CleanV(val) /\ phase' = "clean" /\ UNCHANGED orig
Again == phase = "clean" /\ val' = CleanV(val) /\ phase' = "clean2" /\ UNCHANGED orig
Next == CleanAct \/ Again
Spec == Init /\ [][Next]_vars
NoLeak == phase # "dirty" => Leaks(val) = {}
Idempotent == phase = "clean2" => val = CleanV(orig)
\* frame: the terms of the root other than bto/bcc are all still there
RootFrame == phase # "dirty" => DOMAIN val.p = DOMAIN orig.p \ Private
=============================================================================
