---------------------------- MODULE JsonCodecGen ----------------------------
(* Leg G for C05: documents = presentations of the case values in every style. *)
EXTENDS JsonCodec, Json, IOUtils, SequencesExt, FiniteSetsExt
CONSTANT Tier
DocVals == {c \in OneField(FALSE) : TRUE} \cup UntypedOne(FALSE) \cup AllTypeNames \cup Nested1 \cup Full(FALSE)
            \cup (IF Tier = "thorough" THEN Pairwise({"Object", "Actor", "OrderedCollectionPage"}, FALSE) ELSE {})
ModelVals == {c \in OneField(FALSE) : c.lab.g \in {"Object", "Actor", "Question", "Place", "Link", "OrderedCollectionPage"}} \cup Nested1
Docs == {[lab |-> c.lab, doc |-> Pres(c.v, st)] : c \in DocVals, st \in Styles}
GenInit == doc = NoNode /\ val = NilItem /\ phase = "gen" /\ orig = NilItem /\ style = [item |-> "min"]
GenNext == FALSE /\ UNCHANGED vars
ASSUME ndJsonSerialize("c05_docs.ndjson", SetToSeq(Docs))
=============================================================================
