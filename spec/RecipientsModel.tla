-------------------------- MODULE RecipientsModel --------------------------
EXTENDS Recipients
E(w, f) == [w |-> w, f |-> f]
ModelPool == {Nil, E(1, "iri"), E(1, "actor"), E(2, "iri"), E(2, "https")}
=============================================================================
