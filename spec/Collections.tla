---------------------------- MODULE Collections ----------------------------
(***************************************************************************)
(* C13 -- the six collection kinds of go-ap/activitypub as ONE machine:    *)
(* an insertion-ordered set driven by Append / Contains / Remove / Count.  *)
(*                                                                         *)
(* Abstract state: kind (which Go container), m (sequence of item ids in   *)
(* container order), res (reply of the last call).  Items are identified   *)
(* by id; the harness pool gives every id exactly one shape                *)
(* (IRI / object / actor / activity), so identity = id.                    *)
(*                                                                         *)
(* The pure operators (ApplyOp) are shared by the state machine checked    *)
(* exhaustively by TLC (leg M), by the transition generator (leg G,        *)
(* CollectionsGen) and by the trace specification (leg V,                  *)
(* CollectionsTrace).                                                      *)
(***************************************************************************)
EXTENDS Naturals, Sequences, FiniteSets, TLC

CONSTANTS Ids         \* pool of item ids (naturals)

Kinds == {"ItemCollection", "IRIs", "Collection", "CollectionPage",
          "OrderedCollection", "OrderedCollectionPage"}

\* the statement demands Remove "through the collection's item-list view" of EVERY kind.  An IRI list has no Remove of its
\* own and its item-list view is a fresh copy, so the call cannot reach it (recorded as a known finding, DESIGN.md 6.2)
HasRemove(k) == TRUE

Elems(s) == {s[i] : i \in 1..Len(s)}
NoDup(s) == \A i, j \in 1..Len(s) : i # j => s[i] # s[j]

RemoveAll(s, x) == SelectSeq(s, LAMBDA e : e # x)

\* first index of x in s, 0 if absent
RECURSIVE IndexFrom(_, _, _)
IndexFrom(s, x, i) == IF i > Len(s) THEN 0 ELSE IF s[i] = x THEN i ELSE IndexFrom(s, x, i + 1)
Index(s, x) == IndexFrom(s, x, 1)

(* The reply and successor contents of each operation.  res is a record     *)
(* [r |-> ...] so that booleans, numbers and "ok" never get compared.       *)
AppendM(m, x)   == IF x \in Elems(m) THEN m ELSE Append(m, x)
RECURSIVE AppendManyM(_, _)
AppendManyM(m, xs) == IF xs = <<>> THEN m ELSE AppendManyM(AppendM(m, Head(xs)), Tail(xs))

ApplyOp(m, op) ==
  CASE op.o = "Append"     -> [m |-> AppendM(m, op.x),        res |-> [k |-> "ok"]]
    [] op.o = "AppendMany" -> [m |-> AppendManyM(m, op.xs),   res |-> [k |-> "ok"]]
    [] op.o = "Contains"   -> [m |-> m,                       res |-> [k |-> "bool", b |-> op.x \in Elems(m)]]
    [] op.o = "Remove"     -> [m |-> RemoveAll(m, op.x),      res |-> [k |-> "ok"]]
    [] op.o = "Count"      -> [m |-> m,                       res |-> [k |-> "n", n |-> Len(m)]]
    [] op.o = "First"      -> [m |-> m,                       res |-> IF m = <<>> THEN [k |-> "none"] ELSE [k |-> "id", id |-> m[1]]]
    \* persisting the container and reading it back (JSON / gob) changes nothing
    [] op.o \in {"SaveLoadJSON", "SaveLoadGob"} -> [m |-> m,         res |-> [k |-> "ok"]]
    \* read-only views of the member list (growth beyond C13's statement)
    [] op.o = "IRIs"       -> [m |-> m,                       res |-> [k |-> "ids", ids |-> m]]
    [] op.o = "Normalize"  -> [m |-> m,                       res |-> IF m = <<>> THEN [k |-> "none"]
                                                                      ELSE IF Len(m) = 1 THEN [k |-> "id", id |-> m[1]] ELSE [k |-> "ids", ids |-> m]]
    [] op.o = "ItemsMatch" -> [m |-> m,                       res |-> [k |-> "bool", b |-> \A i \in 1..Len(op.xs) : op.xs[i] \in Elems(m)]]

OpsFor(k) ==
  {[o |-> "Append", x |-> x] : x \in Ids} \cup
  {[o |-> "Contains", x |-> x] : x \in Ids} \cup
  (IF HasRemove(k) THEN {[o |-> "Remove", x |-> x] : x \in Ids} ELSE {}) \cup
  {[o |-> "Count"]}

-----------------------------------------------------------------------------
VARIABLES kind, m, res
vars == <<kind, m, res>>

Init == kind \in Kinds /\ m = <<>> /\ res = [k |-> "init"]

Do(op) == /\ LET a == ApplyOp(m, op) IN m' = a.m /\ res' = a.res
          /\ UNCHANGED kind

Next == \E op \in OpsFor(kind) : Do(op)

Spec == Init /\ [][Next]_vars

\* ---- the property, as invariants and action properties -------------------
TypeOK == kind \in Kinds /\ m \in Seq(Ids)
SetInv == NoDup(m)                                   \* it is a set
CountInv == res.k = "n" => res.n = Len(m)            \* Count = number of members

\* members keep first-insertion order: every step keeps the relative order of survivors
IsSubSeqOrder(a, b) == \* every two elements present in both appear in the same order
  \A x, y \in Elems(a) \cap Elems(b) : (Index(a, x) < Index(a, y)) <=> (Index(b, x) < Index(b, y))

OrderProp == [][IsSubSeqOrder(m, m')]_vars
\* appending a present item changes nothing; an appended item is contained and is last if new
AppendProp == [][\A x \in Ids :
                  (m' = AppendM(m, x) /\ x \in Elems(m)) => m' = m]_vars
GrowProp == [][Len(m') <= Len(m) + 1 /\ Elems(m') \subseteq Elems(m) \cup Ids]_vars
\* new members only ever appear at the end
TailProp == [][\A x \in Elems(m') \ Elems(m) : m'[Len(m')] = x /\ Len(m') = Len(m) + 1]_vars

=============================================================================
