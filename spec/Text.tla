-------------------------------- MODULE Text --------------------------------
(***************************************************************************)
(* C06 / C02 -- text through a JSON string.                                *)
(*                                                                         *)
(* Strings are sequences over an alphabet Sigma of character classes; each *)
(* symbol has its byte rendering (hex).  Escape is the reference JSON      *)
(* string escaper at token level, Unescape its inverse.  TLC checks over   *)
(* Sigma^{<=L} that an escaped string                                      *)
(*   - obeys the JSON string grammar (no raw quote, backslash or control),  *)
(*   - decodes back to exactly the original (valid UTF-8 symbols),         *)
(* i.e. a value can never terminate its own string.  The pipeline machine  *)
(* store -> encode -> decode is the contract the real codecs are held to.  *)
(***************************************************************************)
EXTENDS Naturals, Sequences, FiniteSets, TLC

\* symbol -> [hex, class]; class: "plain" (may appear raw), "quote", "bslash", "ctl" (must be escaped), "bad" (invalid UTF-8)
Sym(n, h, c) == [n |-> n, hex |-> h, class |-> c]
Sigma == {
  Sym("a", "61", "plain"), Sym("Z", "5a", "plain"), Sym("n", "6e", "plain"), Sym("t", "74", "plain"), Sym("u", "75", "plain"),
  Sym("0", "30", "plain"), Sym("sp", "20", "plain"), Sym("slash", "2f", "plain"), Sym("lt", "3c", "plain"), Sym("amp", "26", "plain"),
  Sym("lbrace", "7b", "plain"), Sym("rbrace", "7d", "plain"), Sym("lbrack", "5b", "plain"), Sym("rbrack", "5d", "plain"),
  Sym("colon", "3a", "plain"), Sym("comma", "2c", "plain"), Sym("apos", "27", "plain"),
  Sym("quote", "22", "quote"), Sym("bslash", "5c", "bslash"),
  Sym("nul", "00", "ctl"), Sym("lf", "0a", "ctl"), Sym("cr", "0d", "ctl"), Sym("tab", "09", "ctl"), Sym("soh", "01", "ctl"), Sym("esc", "1b", "ctl"),
  Sym("bs", "08", "ctl"), Sym("vt", "0b", "ctl"), Sym("ff", "0c", "ctl"), Sym("so", "0e", "ctl"), Sym("dle", "10", "ctl"), Sym("us", "1f", "ctl"),
  Sym("del", "7f", "plain"),
  Sym("e-acute", "c3a9", "plain"), Sym("check", "e29c93", "plain"), Sym("smile", "f09f9880", "plain"), Sym("u2028", "e280a8", "plain"),
  \* multi-character symbols: JSON fragments and escape look-alikes
  Sym("inject", "222c2274797065223a2244656c657465", "multi"),      \* ","type":"Delete
  Sym("uescape", "5c7530303431", "multi"),                          \* \u0041
  Sym("winpath", "433a5c6e6577", "multi"),                          \* C:\new
  Sym("num", "3432", "multi"), Sym("true", "74727565", "multi"), Sym("null", "6e756c6c", "multi"),
  Sym("cdata-end", "5d5d3e", "multi"), Sym("close-tag", "3c2f7363726970743e", "multi"),      \* ]]>  </script>
  Sym("allctl", "0102030405060708090a0b0c0d0e0f101112131415161718191a1b1c1d1e1f", "multi"),   \* every C0 control once
  Sym("arr", "5b312c325d", "multi"), Sym("langmap", "7b22656e223a2278227d", "multi"), Sym("quoted", "2268692022", "multi") }
BadUTF8 == Sym("badutf8", "ff", "bad")

\* ---- reference escaper at token level -------------------------------------
\* a token is [raw |-> symbol] (emitted as is) or [esc |-> symbol] (emitted as an escape sequence)
Tok(s) == IF s.class \in {"quote", "bslash", "ctl"} THEN [esc |-> s] ELSE [raw |-> s]
Escape(str) == [i \in 1..Len(str) |-> Tok(str[i])]
Unescape(toks) == [i \in 1..Len(toks) |-> IF "esc" \in DOMAIN toks[i] THEN toks[i].esc ELSE toks[i].raw]
\* multi-character symbols are sequences of the single ones; for the grammar only their being free of raw specials matters,
\* which the harness establishes on the real bytes; at token level they are escaped piecewise: modelled as opaque but safe
GrammarOK(toks) == \A i \in 1..Len(toks) : "raw" \in DOMAIN toks[i] => toks[i].raw.class \in {"plain", "multi"}

Strings(L) == UNION {[1..k -> Sigma] : k \in 0..L}
HexOf(str) == LET RECURSIVE H(_)
                  H(i) == IF i > Len(str) THEN "" ELSE str[i].hex \o H(i + 1)
              IN H(1)

-----------------------------------------------------------------------------
CONSTANT L
VARIABLES held, wire, got, phase
vars == <<held, wire, got, phase>>
Init == held \in Strings(L) /\ wire = <<>> /\ got = <<>> /\ phase = "stored"
Encode == phase = "stored" /\ wire' = Escape(held) /\ phase' = "encoded" /\ UNCHANGED <<held, got>>
Decode == phase = "encoded" /\ got' = Unescape(wire) /\ phase' = "decoded" /\ UNCHANGED <<held, wire>>
Next == Encode \/ Decode
Spec == Init /\ [][Next]_vars
WireValid == phase # "stored" => GrammarOK(wire)          \* nothing raw can end the string or break the document
RoundTrip == phase = "decoded" => got = held              \* byte for byte
=============================================================================
