-------------------------- MODULE NilMatrixTrace --------------------------
(* Leg V for C20.  Events: {"ev":"cell","h":..,"nk":..,"pos":..,"class":..,"cb":..} *)
EXTENDS NilMatrix, Json, IOUtils
VARIABLES l, bad, done
Tr == ndJsonDeserialize("c20_trace.ndjson")
Chunk == 200
Why(ev) ==
  IF ev.h \notin HelpersAt(ev.pos) \/ ev.nk \notin NilKinds THEN <<"not-in-matrix">>
  ELSE (IF ev.class \in Allowed(ev.h, ev.nk, ev.pos) THEN <<>> ELSE <<ev.class>>)
       \o (IF ev.cb \in CallbackAllowed THEN <<>> ELSE <<"callback-" \o ev.cb>>)
INSTANCE EventJudge
TraceSpec == JInit /\ Init /\ [][(JStep \/ JFinish) /\ UNCHANGED vars]_<<jvars, vars>>
=============================================================================
