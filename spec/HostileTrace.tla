---------------------------- MODULE HostileTrace ----------------------------
(* Leg V for C04.  Events: {"ev":"dec","entry":..,"case":..,"len":N,"outcome":..,"ms":N,"allockb":N,"follow":[{f,o}]} *)
EXTENDS Hostile, Json, IOUtils
VARIABLES l, bad, done
Tr == ndJsonDeserialize("c04_trace.ndjson")
Chunk == 500
Why(ev) ==
  (IF ev.outcome \in Outcomes THEN <<>> ELSE <<ev.outcome>>)
  \o (IF \A i \in 1..Len(ev.follow) : ev.follow[i].o \in FollowOutcomes THEN <<>>
      ELSE LET i == CHOOSE i \in 1..Len(ev.follow) : ev.follow[i].o \notin FollowOutcomes IN <<ev.follow[i].f \o "-" \o ev.follow[i].o>>)
  \o (IF ev.ms <= MsBound(ev.len) THEN <<>> ELSE <<"slow">>)
  \o (IF ev.allockb <= AllocBoundKB(ev.len) THEN <<>> ELSE <<"allocation">>)
INSTANCE EventJudge
TraceSpec == JInit /\ cell = [g |-> "none"] /\ outcome = "none" /\ follow = [f |-> "none", o |-> "none"]
             /\ [][(JStep \/ JFinish) /\ UNCHANGED vars]_<<jvars, vars>>
=============================================================================
