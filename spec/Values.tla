------------------------------- MODULE Values -------------------------------
(***************************************************************************)
(* The abstract value domain shared by the codec, equality, clean,         *)
(* flatten and copy specifications, with the documented normal forms.      *)
(*                                                                         *)
(*  item    [k |-> "nil"] | [k |-> "iri", iri |-> S]                       *)
(*          | [k |-> "obj", g |-> GoType, ptr |-> BOOLEAN, p |-> [term -> propval]]   (absent term = unset) *)
(*          | [k |-> "list", e |-> Seq(item)] | [k |-> "iris", e |-> Seq(S)]          *)
(*  propval item | [k |-> "nlv", e |-> Seq([r, t])] | [k |-> "time", s, ns, off]      *)
(*          | [k |-> "dur", s, ns] | [k |-> "int", n] | [k |-> "float", f]            *)
(*          | [k |-> "bool", b] | [k |-> "str", s]                                    *)
(*          | [k |-> "source" | "endpoints" | "pubkey", p |-> [term -> propval]]      *)
(***************************************************************************)
EXTENDS Vocab

NilItem == [k |-> "nil"]
Iri(s) == [k |-> "iri", iri |-> s]
Str(s) == [k |-> "str", s |-> s]
Obj(g, p) == [k |-> "obj", g |-> g, ptr |-> TRUE, p |-> p]
ListOf(e) == [k |-> "list", e |-> e]
Nlv(e) == [k |-> "nlv", e |-> e]
LR(r, t) == [r |-> r, t |-> t]
NilTag == "-"

Restrict(f, S) == [x \in S |-> f[x]]
MapSeq(s, Op(_)) == [i \in 1..Len(s) |-> Op(s[i])]

SubRows(k) == CASE k = "source" -> SourceProps [] k = "endpoints" -> EndpointsProps [] k = "pubkey" -> PubKeyProps

(***************************************************************************)
(* Normal form of the JSON round trip (C01): instants are UTC whole        *)
(* seconds; a one-element list in a single-item property is that element;  *)
(* a lone language-tagged string returns untagged; IRI lists are item      *)
(* lists; value/pointer form is not part of a value's identity.            *)
(***************************************************************************)
\* The struct a package-level decoder builds is chosen by the type name, not by the struct that was written: an Object that
\* carries the name of a larger struct of its family tree (ObjectNew(PlaceType), an Object decoded from a Person document)
\* comes back as that struct holding the same properties.  Values without a (vocabulary) type name keep their struct.
HomeOf(v) == IF "type" \in DOMAIN v.p /\ v.p.type.k = "str" /\ v.p.type.s # "" /\ GoType(v.p.type.s) # "none" THEN GoType(v.p.type.s) ELSE v.g
RECURSIVE NFItem(_), NFProp(_, _), NFMap(_, _)
NFItem(v) ==
  CASE v.k = "nil" -> v
    [] v.k = "iri" -> Iri(v.iri)          \* (an IRI held by pointer is the same IRI)
    [] v.k = "iris" -> ListOf(MapSeq(v.e, Iri))
    [] v.k = "list" -> ListOf([i \in 1..Len(v.e) |-> NFItem(v.e[i])])
    [] v.k = "obj" -> [k |-> "obj", g |-> HomeOf(v), ptr |-> TRUE, p |-> NFMap(Props(v.g), v.p)]
\* (a text list all of whose texts are empty is the empty normal form: absent)
IsEmptyText(x) == x.k = "nlv" /\ \A i \in 1..Len(x.e) : x.e[i].t = ""
\* (decided on the value as given, so that every property is normalised once: this definition is recursive through NFProp)
NFMap(rows, p) == [t \in {u \in DOMAIN p : ~IsEmptyText(p[u])} |-> NFProp(RowKind(rows, t), p[t])]
NFProp(kind, x) ==
  CASE kind = "item" -> LET y == NFItem(x) IN IF y.k = "list" /\ Len(y.e) = 1 THEN y.e[1] ELSE y
    [] kind = "items" -> NFItem(x)
    \* (an entry whose text is empty carries no text; what remains, if it is one text, returns untagged)
    [] kind = "nlv" -> LET e == SelectSeq(x.e, LAMBDA r : r.t # "") IN IF Len(e) = 1 THEN Nlv(<<LR(NilTag, e[1].t)>>) ELSE Nlv(e)
    [] kind = "time" -> [k |-> "time", s |-> x.s, ns |-> 0, off |-> 0]
    [] kind \in {"source", "endpoints", "pubkey"} -> [k |-> kind, p |-> NFMap(SubRows(kind), x.p)]
    [] OTHER -> x

(* Normal form of the gob round trip (C03): only value/pointer form and    *)
(* the IRI-list presentation are not part of identity.                     *)
RECURSIVE GFItem(_), GFProp(_, _), GFMap(_, _)
GFItem(v) ==
  CASE v.k = "nil" -> v
    [] v.k = "iri" -> Iri(v.iri)
    [] v.k = "iris" -> v
    [] v.k = "list" -> ListOf([i \in 1..Len(v.e) |-> GFItem(v.e[i])])
    [] v.k = "obj" -> [k |-> "obj", g |-> HomeOf(v), ptr |-> TRUE, p |-> GFMap(Props(v.g), v.p)]
GFMap(rows, p) == [t \in DOMAIN p |-> GFProp(RowKind(rows, t), p[t])]
GFProp(kind, x) ==
  CASE kind \in {"item", "items"} -> GFItem(x)
    [] kind \in {"source", "endpoints", "pubkey"} -> [k |-> kind, p |-> GFMap(SubRows(kind), x.p)]
    [] OTHER -> x

(***************************************************************************)
(* Diff(a, b): where does the observed value b depart from the expected a? *)
(* Returns a sequence of [g, t, path, sym] naming the deepest property.    *)
(***************************************************************************)
IsItemLike(x) == x.k \in {"nil", "iri", "obj", "list", "iris"}
RECURSIVE DiffItem(_, _, _, _, _), DiffMap(_, _, _, _, _)
D(g, t, path, sym) == <<[g |-> g, t |-> t, path |-> path, sym |-> sym]>>
SeqUnion(S, Op(_)) ==   \* concatenation of Op(x) over a finite set S, in some fixed order
  LET RECURSIVE Go(_)
      Go(T) == IF T = {} THEN <<>> ELSE LET x == CHOOSE y \in T : TRUE IN Op(x) \o Go(T \ {x})
  IN Go(S)
DiffMap(rows, pa, pb, g, path) ==
  SeqUnion(DOMAIN pa \cup DOMAIN pb,
           LAMBDA t : IF t \notin DOMAIN pb THEN D(g, t, Append(path, t), "dropped")
                      ELSE IF t \notin DOMAIN pa THEN D(g, t, Append(path, t), "invented")
                      ELSE DiffItem(pa[t], pb[t], g, t, Append(path, t)))
\* (kinds are compared before values: TLC refuses to compare a string with a record, and which field of two records it
\*  looks at first depends on the order in which it first met the field names - an IRI list against an item list must be a
\*  verdict, not an evaluation error; "=" is applied to values of one leaf kind only)
DiffItem(a, b, g, t, path) ==
  IF a.k # b.k THEN (IF b.k = "nil" THEN D(g, t, path, "dropped") ELSE D(g, t, path, "shape:" \o a.k \o "->" \o b.k))
  ELSE IF a.k = "obj" THEN
         IF a.g # b.g THEN D(g, t, path, "gotype:" \o a.g \o "->" \o b.g)
         ELSE DiffMap(Props(a.g), a.p, b.p, a.g, path)
  ELSE IF a.k \in {"source", "endpoints", "pubkey"} THEN DiffMap(SubRows(a.k), a.p, b.p, g \o "." \o t, path)
  ELSE IF a.k = "list" THEN
         IF Len(a.e) # Len(b.e) THEN D(g, t, path, IF Len(b.e) < Len(a.e) THEN "list-shorter" ELSE "list-longer")
         ELSE SeqUnion(1..Len(a.e), LAMBDA i : DiffItem(a.e[i], b.e[i], g, t, Append(path, ToString(i))))
  ELSE IF a = b THEN <<>>
  ELSE D(g, t, path, "changed")

Diff(a, b) == DiffItem(a, b, "top", "top", <<>>)
=============================================================================
