------------------------------ MODULE Delivery ------------------------------
(***************************************************************************)
(* Growth: the DELIVERY PROTOCOL a server runs with this library, composed *)
(* from the operations the listed properties govern one by one.            *)
(*                                                                         *)
(*   Compose   an addressed value (Recipients!Init's value space)          *)
(*   Address   Recipients()            -- C10, Recipients!Outcome          *)
(*   Strip     Clean()                 -- C11: bto and bcc emptied         *)
(*   Encode    JSON encode + decode    -- C01/C05: what a remote sees      *)
(*   Deliver   for an addressee w: append the received value to the        *)
(*             collection at Inbox.IRI(w) -- C15 (collection IRI), C13     *)
(*             (insertion-ordered set); the network may deliver again      *)
(*   Persist   an inbox is stored and loaded (gob) -- C03                  *)
(*   Update    version 2 of message 1 is merged into the stored copy       *)
(*             (CopyItemProperties) -- C18                                 *)
(*                                                                         *)
(* Two messages with the same addressing travel at once.  TLC checks that  *)
(* the composition gives what a federation relies on: nothing private is   *)
(* ever on the wire, every addressee (public, private, actor, audience)    *)
(* except a blocked one ends up with each message exactly once however the *)
(* network re-delivers and interleaves, nobody else gets anything, and the *)
(* protocol terminates.  Config delivery_wrong_order lets Strip run before *)
(* Address and MUST violate EveryoneServed (blind-copy addressees are      *)
(* forgotten): the order of the two calls is part of the protocol.         *)
(***************************************************************************)
EXTENDS Recipients

CONSTANTS Msgs,            \* message ids, e.g. {1, 2}
          MaxRedeliver,    \* extra deliveries the network may perform in total
          StrictOrder      \* TRUE: Strip only after Address (the protocol); FALSE: either order
VARIABLES wire, boxes, pending, extra,    \* (the composed value is kept in Recipients!st0)
          ver                              \* ver[w]: which version of message 1 the addressee w holds (0: none)
dvars == <<st, ret, phase, st0, wire, boxes, pending, extra, ver>>

None == [class |-> "none"]
Deliverable(w) == w # 9                                   \* the Public collection has no inbox
DropNil(s) == SelectSeq(s, LAMBDA e : ~IsNilE(e))
\* what a JSON round trip makes of the value: nil entries are not written; everything else comes back as written, repeats
\* included (only the audience can still mention an addressee twice after Address)
WireOf(s) == [s EXCEPT !.to = DropNil(s.to), !.cc = DropNil(s.cc), !.bto = DropNil(s.bto), !.bcc = DropNil(s.bcc), !.aud = DropNil(s.aud)]
StripOf(s) == [s EXCEPT !.bto = <<>>, !.bcc = <<>>]
AppendSet(s, m) == IF \E i \in 1..Len(s) : s[i] = m THEN s ELSE Append(s, m)
Who == {e.w : e \in {x \in Pool : ~IsNilE(x)}}

DInit == /\ \E all \in Lists(MaxTotal) : \E c \in Cuts(Len(all)) : \E h \in Heads : st = h @@ Cut(all, c[1], c[2], c[3], c[4])
         /\ ret = <<>> /\ phase = "composed" /\ st0 = st /\ wire = None
         /\ boxes = [w \in Who |-> <<>>] /\ pending = {} /\ extra = 0 /\ ver = [w \in Who |-> 0]

Address == /\ phase \in {"composed", "stripped-early"}
           /\ LET o == Outcome(st) IN
                /\ st' = [st EXCEPT !.to = o.to, !.cc = o.cc, !.bto = o.bto, !.bcc = o.bcc, !.aud = o.aud]
                /\ ret' = o.ret
           /\ phase' = IF phase = "composed" THEN "addressed" ELSE "stripped"
           /\ UNCHANGED <<st0, wire, boxes, pending, extra, ver>>
Strip == /\ phase = "addressed"
         /\ st' = StripOf(st) /\ phase' = "stripped"
         /\ UNCHANGED <<ret, st0, wire, boxes, pending, extra, ver>>
StripEarly == /\ ~StrictOrder /\ phase = "composed"
              /\ st' = StripOf(st) /\ phase' = "stripped-early"
              /\ UNCHANGED <<ret, st0, wire, boxes, pending, extra, ver>>
Encode == /\ phase = "stripped"
          /\ wire' = WireOf(st) /\ phase' = "sending"
          /\ pending' = {<<m, ret[i]>> : m \in Msgs, i \in {j \in 1..Len(ret) : Deliverable(ret[j])}}
          /\ UNCHANGED <<st, ret, st0, boxes, extra, ver>>
Deliver(m, w) == /\ phase = "sending" /\ <<m, w>> \in pending
                 /\ boxes' = [boxes EXCEPT ![w] = AppendSet(@, m)]
                 /\ pending' = pending \ {<<m, w>>}
                 /\ ver' = IF m = 1 /\ ver[w] = 0 THEN [ver EXCEPT ![w] = 1] ELSE ver
                 /\ UNCHANGED <<st, ret, phase, st0, wire, extra>>
Redeliver(m, w) == /\ phase = "sending" /\ extra < MaxRedeliver
                   /\ w \in {ret[i] : i \in 1..Len(ret)} /\ Deliverable(w) /\ <<m, w>> \notin pending
                   /\ boxes' = [boxes EXCEPT ![w] = AppendSet(@, m)] /\ extra' = extra + 1
                   /\ ver' = IF m = 1 /\ ver[w] = 0 THEN [ver EXCEPT ![w] = 1] ELSE ver      \* a re-delivered OLD copy never replaces a newer one
                   /\ UNCHANGED <<st, ret, phase, st0, wire, pending>>
\* an inbox is written to storage and read back (gob, C03): nothing observable changes -- a named stuttering step that the
\* trace specification checks on the real collections
Persist(w) == /\ phase \in {"sending", "delivered", "updated"} /\ boxes[w] # <<>> /\ UNCHANGED dvars
\* the sender publishes version 2 of message 1; an addressee that holds the message merges it (CopyItemProperties, C18):
\* same id, same place in the inbox, new content
\* (the merge supports objects, actors and collections -- class "plain"; for activities it is refused and the stored copy stays)
Mergeable == st0.class = "plain"
Update(w) == /\ phase = "delivered" /\ ver[w] = 1 /\ Mergeable
             /\ ver' = [ver EXCEPT ![w] = 2]
             /\ UNCHANGED <<st, ret, phase, st0, wire, boxes, pending, extra>>
RefusedUpdate(w) == /\ phase = "delivered" /\ ver[w] = 1 /\ ~Mergeable /\ UNCHANGED dvars
Settle == /\ phase = "delivered" /\ (Mergeable => \A w \in Who : ver[w] # 1) /\ phase' = "updated"
          /\ UNCHANGED <<st, ret, st0, wire, boxes, pending, extra, ver>>
Finish == /\ phase = "sending" /\ pending = {} /\ phase' = "delivered"
          /\ UNCHANGED <<st, ret, st0, wire, boxes, pending, extra, ver>>
DNext == Address \/ Strip \/ StripEarly \/ Encode \/ (\E m \in Msgs, w \in Who : Deliver(m, w) \/ Redeliver(m, w)) \/ (\E w \in Who : Persist(w) \/ Update(w) \/ RefusedUpdate(w)) \/ Settle \/ Finish
DSpec == DInit /\ [][DNext]_dvars /\ WF_dvars(Address \/ Strip \/ Encode \/ Finish \/ Settle \/ (\E m \in Msgs, w \in Who : Deliver(m, w)) \/ (\E w \in Who : Update(w)))

\* ---- what the composition guarantees -------------------------------------
OrigBlocked == Blocked
Addressees == {w \in AllWho(st0) \ OrigBlocked : Deliverable(w)}
NothingPrivateOnWire == wire # None => wire.bto = <<>> /\ wire.bcc = <<>>
NobodyElse == \A w \in Who : boxes[w] # <<>> => w \in Addressees
AtMostOnce == \A w \in Who : \A i, j \in 1..Len(boxes[w]) : i # j => boxes[w][i] # boxes[w][j]
EveryoneServed == phase = "delivered" => \A w \in Addressees : {boxes[w][i] : i \in 1..Len(boxes[w])} = Msgs
WireKeepsPublicAddressing == wire # None => /\ Whos(wire.to) = Whos(st0.to) \ OrigBlocked
                                            /\ Whos(wire.cc) \subseteq Whos(st0.cc)
EveryoneUpToDate == phase = "updated" => \A w \in Addressees : ver[w] = IF Mergeable THEN 2 ELSE 1
UpdateKeepsInbox == \A w \in Who : (ver[w] > 0) = (\E i \in 1..Len(boxes[w]) : boxes[w][i] = 1)
Terminates == <>(phase = "updated")
=============================================================================
