------------------------------ MODULE Equality ------------------------------
(***************************************************************************)
(* C09 -- the LAWS item equality must satisfy (not a reference             *)
(* implementation: the library's relation is deliberately partial, e.g. an *)
(* IRI equals an object with that id).                                     *)
(*                                                                         *)
(* A comparison is [x, y, res].  Which law applies is decided here from x  *)
(* and y themselves:                                                       *)
(*   Refl     x = y                                       => res           *)
(*   NilNil   both nil-like                               => res           *)
(*   NilNon   exactly one nil-like                        => ~res          *)
(*   IdDiff   objects with different ids                  => ~res          *)
(*   TypeDiff objects whose types differ ignoring case    => ~res          *)
(*   Mut      y is x with ONE core property changed       => ~res          *)
(* The machine compares with a structural reference relation so that TLC   *)
(* can check the law set is consistent (no pair falls under a TRUE-law and *)
(* a FALSE-law) and never vacuous.                                         *)
(***************************************************************************)
EXTENDS Cases

IsNilLike(v) == v.k = "nil" \/ (v.k = "iri" /\ v.iri \in {"", "-"}) \/ (v.k = "list" /\ v.e = <<>> /\ "nilslice" \in DOMAIN v)

CoreMutable == Terms(ObjectProps) \ {"mediaType", "source"}
ActivityMutable == {"actor", "object", "target", "result", "origin", "instrument"}
MutTerms(g) == IF g = "Link" THEN {} ELSE CoreMutable \cup (IF g = "Activity" THEN ActivityMutable ELSE {})

HasStr(v, t) == v.k = "obj" /\ t \in DOMAIN v.p
IdS(v) == IF HasStr(v, "id") THEN v.p.id.s ELSE ""
TypeS(v) == IF HasStr(v, "type") THEN v.p.type.s ELSE ""

\* y differs from x in exactly the property t (both have it set)
OnlyDiffers(x, y, t) == /\ x.k = "obj" /\ y.k = "obj" /\ x.g = y.g
                        /\ DOMAIN x.p = DOMAIN y.p /\ t \in DOMAIN x.p
                        /\ x.p[t] # y.p[t]
                        /\ \A u \in DOMAIN x.p \ {t} : x.p[u] = y.p[u]

LawsFalse(x, y) ==
  (IF IsNilLike(x) # IsNilLike(y) THEN {"NilNon"} ELSE {})
  \cup (IF x.k = "obj" /\ y.k = "obj" /\ IdS(x) # "" /\ IdS(y) # "" /\ IdS(x) # IdS(y) THEN {"IdDiff"} ELSE {})
  \cup (IF x.k = "obj" /\ y.k = "obj" /\ TypeS(x) # TypeS(y) THEN {"TypeDiff"} ELSE {})
  \cup (IF x.k = "obj" /\ y.k = "obj" /\ \E t \in MutTerms(x.g) \ {"id", "type"} : OnlyDiffers(x, y, t) THEN {"Mut"} ELSE {})
LawsTrue(x, y) ==
  (IF x = y THEN {"Refl"} ELSE {}) \cup (IF IsNilLike(x) /\ IsNilLike(y) THEN {"NilNil"} ELSE {})

\* ---- identity-different replacement values ---------------------------------
OtherIri(n) == Iri(Base \o "other/" \o ToString(n))
RECURSIVE OtherItem(_)
OtherItem(v) ==
  CASE v.k = "iri" -> OtherIri(1)
    [] v.k = "obj" -> IF "id" \in DOMAIN v.p THEN With(v, "id", Str(Base \o "other/" \o v.g))
                      ELSE IF "href" \in DOMAIN v.p THEN With(v, "href", Str(Base \o "other/href"))       \* the same kind of item, pointing elsewhere
                      ELSE IF "name" \in DOMAIN v.p THEN With(v, "name", Nlv(<<LR(NilTag, "another name")>>))
                      ELSE OtherIri(2)
    [] v.k = "list" -> ListOf([i \in 1..Len(v.e) |-> IF v.e[i].k = "iri" THEN OtherIri(10 + i) ELSE OtherItem(v.e[i])])
    [] OTHER -> OtherIri(3)
OtherVal(kind, v) ==
  CASE kind \in {"item", "items"} -> OtherItem(v)
    [] kind = "nlv" -> Nlv([i \in 1..Len(v.e) |-> LR(v.e[i].r, v.e[i].t \o " changed")])
    [] kind = "time" -> [v EXCEPT !.s = IF v.s > 2000000000 THEN v.s - 3600 ELSE v.s + 3600]
    [] kind = "dur" -> [v EXCEPT !.s = v.s + 1]
    [] OTHER -> v

-----------------------------------------------------------------------------
CONSTANT Pairs
VARIABLES x, y, res, phase
vars == <<x, y, res, phase>>
Init == \E c \in Pairs : x = c.x /\ y = c.y /\ res = FALSE /\ phase = "pair"
Compare == phase = "pair" /\ res' = (x = y \/ (IsNilLike(x) /\ IsNilLike(y))) /\ phase' = "compared" /\ UNCHANGED <<x, y>>
Next == Compare
Spec == Init /\ [][Next]_vars
\* the structural reference relation satisfies every law ...
RefOK == phase = "compared" => (LawsTrue(x, y) # {} => res) /\ (LawsFalse(x, y) # {} => ~res)
\* ... the law set is consistent ...
Consistent == LawsTrue(x, y) = {} \/ LawsFalse(x, y) = {}
\* ... and every generated pair exercises a law
NotVacuous == LawsTrue(x, y) \cup LawsFalse(x, y) # {}
=============================================================================
