--------------------------- MODULE NilMatrixGen ---------------------------
EXTENDS NilMatrix, Json, IOUtils, SequencesExt, FiniteSetsExt
Cells == UNION {{[h |-> h, nk |-> nk, pos |-> pos] : h \in HelpersAt(pos), nk \in NilKinds} : pos \in Positions}
GenInit == Init
GenNext == FALSE /\ UNCHANGED vars
ASSUME ndJsonSerialize("c20_cells.ndjson", SetToSeq(Cells))
=============================================================================
