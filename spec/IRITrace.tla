------------------------------ MODULE IRITrace ------------------------------
(* Leg V for C14.  Events:                                                    *)
(*  {"ev":"eq","a":pres,"b":pres,"cs":BOOLEAN,"res":BOOLEAN}  IRI.Equals on the grid  *)
(*  {"ev":"sym","a":str,"b":str,"cs":..,"ab":BOOLEAN,"ba":BOOLEAN,"aa":BOOLEAN} arbitrary strings *)
(*  {"ev":"mem","lst":[pres],"x":pres,"res":BOOLEAN}  IRIs.Contains                    *)
(*  {"ev":"app","lst":[pres],"x":pres,"post":[pres]}  IRIs.Append                      *)
(*  {"ev":"addpath","ci":pres,"els":[..],"got":str} / {"ev":"contains","ci":pres,"cw":pres,"cs":B,"got":B}  growth *)
EXTENDS IRI, Json, IOUtils

VARIABLES l, bad, done
Tr == ndJsonDeserialize("c14_trace.ndjson")
Chunk == 500

DiffComps(a, b, cs) ==
  (IF cs /\ LowerOf(a.sch) # LowerOf(b.sch) THEN <<"scheme">> ELSE <<>>)
  \o (IF LowerOf(a.host) # LowerOf(b.host) THEN <<"host">> ELSE <<>>)
  \o (IF CleanPath(a.path) # CleanPath(b.path) THEN <<"path">> ELSE <<>>)
  \o (IF ~QueryEq(a.query, b.query) THEN <<"query">> ELSE <<>>)
PresComps(a, b) ==
  (IF a.sch # b.sch THEN <<"scheme-case">> ELSE <<>>)
  \o (IF a.host # b.host THEN <<"host-case">> ELSE <<>>)
  \o (IF a.path # b.path THEN <<"path-form">> ELSE <<>>)
  \o (IF a.query # b.query THEN <<"query-order">> ELSE <<>>)
  \o (IF a.frag # b.frag THEN <<"fragment">> ELSE <<>>)

Why(ev) ==
  IF ev.ev = "eq" THEN
     IF ev.res = Equiv(ev.a, ev.b, ev.cs) THEN <<>>
     ELSE IF ev.res THEN <<"false-positive">> \o DiffComps(ev.a, ev.b, ev.cs)
     ELSE <<"false-negative">> \o PresComps(ev.a, ev.b)
  ELSE IF ev.ev = "sym" THEN
     (IF ev.aa THEN <<>> ELSE <<"not-reflexive">>) \o (IF ev.ab = ev.ba THEN <<>> ELSE <<"not-symmetric">>)
  ELSE IF ev.ev = "mem" THEN
     IF ev.res = MemberF(ev.lst, ev.x) THEN <<>> ELSE <<"membership">>
  ELSE IF ev.ev = "app" THEN
     IF ev.post = AppendF(ev.lst, ev.x) THEN <<>> ELSE <<"append">>
  ELSE IF ev.ev = "addpath" THEN      \* growth (observation): got = what the library returned
     IF ev.got = Str(AddPathF(ev.ci, ev.els)) THEN <<>> ELSE <<"note:addpath">>
  ELSE IF ev.ev = "contains" THEN
     IF ev.got = ContainsF(ev.ci, ev.cw, ev.cs) THEN <<>> ELSE <<"note:contains">>
  ELSE <<"unknown-event">>

INSTANCE EventJudge
TraceSpec == JInit /\ lst = <<>> /\ res = FALSE
             /\ [][(JStep \/ JFinish) /\ UNCHANGED vars]_<<jvars, vars>>
=============================================================================
