------------------------------ MODULE PagesGen ------------------------------
EXTENDS Pages, Json, IOUtils, SequencesExt, FiniteSetsExt
Calls == {[kind |-> k, parent |-> v] : k \in {"CollectionPage", "OrderedCollectionPage"}, v \in Parents}
GenInit == parent = NilItem /\ page = NilItem
GenNext == UNCHANGED pvars
ASSUME ndJsonSerialize("pages_calls.ndjson", SetToSeq(Calls))
ASSUME PrintT("@@ " \o ToJson([calls |-> Cardinality(Calls)]))
=============================================================================
