--------------------------- MODULE DispatchTrace ---------------------------
(* Leg V for C07.  Events: {"ev":"req","ch":..,"n":..,"hooks":..,"res":{kind,g,idok,propok,isObject,isLink,isCollection,lists:[..],helpers:[..]}} *)
EXTENDS Dispatch, Json, IOUtils
VARIABLES l, bad, done
Tr == ndJsonDeserialize("c07_trace.ndjson")
Chunk == 200
Why(ev) ==
  LET r == ev.res IN
  IF InVocabulary(ev.n) THEN
     LET e == Reply(ev.n, ev.ch) IN
     IF r.kind # "value" THEN <<"no-value:" \o r.kind>>
     ELSE (IF r.g = e.g THEN <<>> ELSE <<"gotype:" \o e.g \o "->" \o r.g>>)
          \o (IF e.carried /\ ~r.idok THEN <<"id-lost">> ELSE <<>>)
          \o (IF e.carried /\ ~r.propok THEN <<"property-lost">> ELSE <<>>)
          \o (IF r.isObject = e.isObject /\ r.isLink = e.isLink /\ r.isCollection = e.isCollection THEN <<>> ELSE <<"predicates">>)
          \o (IF e.list = "any" \/ \E i \in 1..Len(r.lists) : r.lists[i] = e.list THEN <<>> ELSE <<"family-list:" \o e.list>>)
          \o (IF \E i \in 1..Len(r.helpers) : r.helpers[i] = e.helper THEN <<>> ELSE <<"helper:" \o e.helper>>)
  ELSE IF ev.hooks = "unset" /\ r.kind \notin {"nothing", "error"} THEN <<"outsider-got-" \o r.kind>>
  ELSE <<>>
INSTANCE EventJudge
TraceSpec == JInit /\ Init /\ [][(JStep \/ JFinish) /\ UNCHANGED vars]_<<jvars, vars>>
=============================================================================
