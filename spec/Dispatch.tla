------------------------------ MODULE Dispatch ------------------------------
(***************************************************************************)
(* C07 -- every vocabulary type name maps to ONE Go type through every     *)
(* channel (type registry, JSON decoding at top level / in an item         *)
(* position / in a list, gob decoding likewise), with and without the      *)
(* package's extension hooks installed.                                    *)
(*                                                                         *)
(* State: hooks ("unset"/"set"), req (channel, name), res (what came       *)
(* back).  Request(ch, n) computes the specified reply; SetHooks /         *)
(* ClearHooks toggle the configuration.  TLC explores the whole space.     *)
(***************************************************************************)
EXTENDS Vocab

Channels == {"registry", "json-top", "json-item", "json-list", "gob-top", "gob-item", "gob-list"}
Outsiders == {"Custom", "IRI", "ItemCollection", "note"}     \* "note": names are case-sensitive
Names == TypeNames \cup {""} \cup Outsiders
InVocabulary(n) == n \in TypeNames \cup {""}
Carries(ch) == ch # "registry"          \* channels through which id and properties travel

\* family -> the membership list that must contain the name, and the helper that must accept the value
FamilyList(f) == CASE f = "object" -> "ObjectTypes" [] f = "actor" -> "ActorTypes" [] f = "activity" -> "ActivityTypes"
                   [] f = "intransitive" -> "IntransitiveActivityTypes" [] f = "link" -> "LinkTypes"
                   [] f = "collection" -> "CollectionTypes" [] OTHER -> "none"
FamilyHelper(f) == CASE f = "object" -> "OnObject" [] f = "actor" -> "OnActor" [] f = "activity" -> "OnActivity"
                     [] f = "intransitive" -> "OnIntransitiveActivity" [] f = "link" -> "OnLink"
                     [] f = "collection" -> "OnCollectionIntf" [] OTHER -> "none"
Lists == {"ObjectTypes", "ActorTypes", "ActivityTypes", "IntransitiveActivityTypes", "LinkTypes", "CollectionTypes"}

Reply(n, ch) ==
  IF InVocabulary(n)
  THEN [kind |-> "value", g |-> GoType(n), carried |-> Carries(ch),
        isObject |-> Family(n) # "link", isLink |-> Family(n) = "link", isCollection |-> Family(n) = "collection",
        list |-> IF n \in GenericNames \cup {""} THEN "any" ELSE FamilyList(Family(n)),
        helper |-> IF n = "" THEN "OnObject" ELSE FamilyHelper(Family(n))]
  ELSE [kind |-> "nothing"]

-----------------------------------------------------------------------------
VARIABLES hooks, req, res
vars == <<hooks, req, res>>
Init == hooks = "unset" /\ req = [ch |-> "none", n |-> ""] /\ res = [kind |-> "none"]
Request(ch, n) == /\ req' = [ch |-> ch, n |-> n]
                  /\ res' = IF InVocabulary(n) \/ hooks = "unset" THEN Reply(n, ch) ELSE [kind |-> "extension"]
                  /\ UNCHANGED hooks
SetHooks == hooks = "unset" /\ hooks' = "set" /\ UNCHANGED <<req, res>>
ClearHooks == hooks = "set" /\ hooks' = "unset" /\ UNCHANGED <<req, res>>
Next == SetHooks \/ ClearHooks \/ \E ch \in Channels, n \in Names : Request(ch, n)
Spec == Init /\ [][Next]_vars

\* one Go type per name, whatever the channel and hook setting
OneGoType == res.kind = "value" => res.g = GoType(req.n) /\ res.g \in GoTypes
\* hooks matter only outside the vocabulary
HooksIrrelevant == res.kind = "extension" => ~InVocabulary(req.n)
NoWrongType == (~InVocabulary(req.n) /\ res.kind # "none") => res.kind \in {"nothing", "extension"}
\* families partition the non-generic vocabulary
ASSUME \A n \in TypeNames \ GenericNames : FamilyList(Family(n)) \in Lists
ASSUME \A n \in TypeNames : GoType(n) \in GoTypes
=============================================================================
