--------------------------- MODULE CollPathTrace ---------------------------
(* Leg V for C15.  Events (IRIs are parsed back to presentations by the     *)
(* harness with net/url, field okp = parse succeeded):                      *)
(*  join : o, c, res (IRIf), valid (ValidCollectionIRI(res))                *)
(*  split: fn, i, c, owner, name, err                                       *)
(*  valid: i, res                                                           *)
(*  of   : fn, kind, id, c, explicit, res                                   *)
EXTENDS CollPath, Json, IOUtils

VARIABLES l, bad, done
Tr == ndJsonDeserialize("c15_trace.ndjson")
Chunk == 500

Why(ev) ==
  IF ev.ev = "join" THEN
     IF ~ev.res.okp THEN <<"join-unparseable">>
     ELSE (IF SameIRI(ev.res, Join(ev.o, ev.c)) THEN <<>> ELSE <<"join-wrong-iri">>)
          \o (IF ev.valid THEN <<>> ELSE <<"built-iri-not-valid">>)
  ELSE IF ev.ev = "split" THEN
     IF ev.err THEN <<"split-error">>
     ELSE IF ~ev.owner.okp THEN <<"owner-unparseable">>
     ELSE (IF SameIRI(ev.owner, SplitOwner(ev.i)) THEN <<>> ELSE <<"owner-not-equivalent">>)
          \o (IF LowerOf(ev.name) = SplitName(ev.i) THEN <<>> ELSE <<"wrong-name">>)
  ELSE IF ev.ev = "valid" THEN
     \* only demanded: an owner whose last segment is not a collection name is not a collection IRI
     IF ~IsName(LastSeg(ev.i)) /\ ev.res THEN <<"owner-accepted-as-collection">> ELSE <<>>
  ELSE IF ev.ev = "of" THEN
     IF ~ev.res.okp THEN <<"of-none">>
     ELSE IF SameIRI(ev.res, OfRule(ev.id, ev.c, ev.explicit)) THEN <<>>
     ELSE IF Absent(ev.explicit) THEN <<"built-wrong">> ELSE <<"explicit-ignored">>
  ELSE IF ev.ev = "addto" THEN        \* CollectionPath.AddTo: sets the built IRI only where the property exists and is unset
     IF ~HasProp(ev.kind, ev.c) THEN (IF ev.status THEN <<"addto-claims-success-without-property">> ELSE <<>>)
     ELSE IF Absent(ev.explicit) THEN
          (IF ev.status THEN <<>> ELSE <<"addto-refused-unset">>)
          \o (IF ev.res.okp /\ SameIRI(ev.res, Join(ev.id, ev.c)) THEN <<>> ELSE <<"addto-wrong-iri">>)
          \o (IF ev.after.okp /\ SameIRI(ev.after, Join(ev.id, ev.c)) THEN <<>> ELSE <<"addto-property-not-set">>)
     ELSE (IF ev.status THEN <<"addto-overwrote-explicit">> ELSE <<>>)
          \o (IF ev.after.okp /\ SameIRI(ev.after, ev.explicit.iri) THEN <<>> ELSE <<"addto-explicit-changed">>)
  ELSE <<"unknown-event">>

INSTANCE EventJudge
TraceSpec == JInit /\ lst = <<>> /\ res = FALSE /\ stack = <<>> /\ cur = [sch |-> "http"]
             /\ [][(JStep \/ JFinish) /\ UNCHANGED <<vars, cvars>>]_<<jvars, vars, cvars>>
=============================================================================
