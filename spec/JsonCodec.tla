------------------------------ MODULE JsonCodec ------------------------------
(***************************************************************************)
(* C05 (read side, fixpoint) and the term/kind clause of C02.              *)
(*                                                                         *)
(* JSON documents are TAGGED TREES (the Json module cannot carry null or   *)
(* floats):  [j |-> "str", v |-> S (, ts |-> unix, ds |-> seconds)]         *)
(*           [j |-> "num", n |-> Int] | [j |-> "num", f |-> decimal-string] *)
(*           [j |-> "bool", b |-> B] | [j |-> "null"]                       *)
(*           [j |-> "arr", e |-> Seq(node)] | [j |-> "obj", m |-> Seq([k, n])] *)
(* String nodes that an independent parser recognises as RFC 3339 instants *)
(* or xsd:durations carry the parsed value as annotation (ts / ds).        *)
(*                                                                         *)
(*   Pres(v, st) : the documents an independent writer may produce for v   *)
(*   Dec(doc)    : the value a document denotes (table-driven from Vocab)  *)
(*   WireOK      : every member is a declared term with the prescribed kind*)
(***************************************************************************)
EXTENDS Cases

JStr(s) == [j |-> "str", v |-> s]
JNum(n) == [j |-> "num", n |-> n]
JFlt(f) == [j |-> "num", f |-> f]
JBool(b) == [j |-> "bool", b |-> b]
JArr(e) == [j |-> "arr", e |-> e]
JObj(m) == [j |-> "obj", m |-> m]
Mem(k, n) == [k |-> k, n |-> n]
NoNode == [j |-> "none"]

RECURSIVE LookupFrom(_, _, _)
LookupFrom(ms, k, i) == IF i > Len(ms) THEN NoNode ELSE IF ms[i].k = k THEN ms[i].n ELSE LookupFrom(ms, k, i + 1)
Lookup(node, k) == IF node.j = "obj" THEN LookupFrom(node.m, k, 1) ELSE NoNode

\* ---- textual forms of the instants and durations used by the case families ----
TimeStr(t) ==
  CASE t.s = 1700000000 /\ t.off = 0 -> "2023-11-14T22:13:20Z"
    [] t.s = 1700003600 /\ t.off = 7200 -> "2023-11-15T01:13:20+02:00"
    [] t.s = 1600000000 -> "2020-09-13T05:26:40-07:00"
    [] t.s = 0 - 1000000000 -> "1938-04-24T22:13:20Z"
    [] t.s = 2147483647 -> "2038-01-19T04:14:07+01:00"
    [] t.s = 1 -> "1970-01-01T00:00:01Z"
    [] t.s = 1700000040 -> "2023-11-14T22:14Z"       \* (ActivityStreams 2.0 core 2.3: the seconds may be left out)
    [] OTHER -> "2023-11-14T22:13:21Z"
DurStr(d) == CASE d.s = 5 -> "PT5S" [] d.s = 0 - 5 -> "-PT5S" [] d.s = 3725 -> "PT1H2M5S" [] d.s = 86400 -> "P1D" [] d.s = 0 - 259200 -> "-P3D"
               [] d.s = 90000 -> "P1DT1H" [] d.s = 2419200 -> "P28D" [] d.s = 0 - 2505600 -> "-P29D" [] d.s = 29376000 -> "P340D"
               [] d.s = 34578000 -> "P400DT5H" [] OTHER -> "PT0S"

(***************************************************************************)
(* Presentation: st = [item |-> "min" | "arr", items |-> "arr" | "min",    *)
(*                     nlv |-> "min" | "map"]                              *)
(***************************************************************************)
Styles == [item : {"min", "arr"}, items : {"arr", "min"}, nlv : {"min", "map"}]
SeqFromSet(S, Op(_)) ==
  LET RECURSIVE Go(_)
      Go(TT) == IF TT = {} THEN <<>> ELSE LET x == CHOOSE y \in TT : TRUE IN <<Op(x)>> \o Go(TT \ {x})
  IN Go(S)
RECURSIVE PresItem(_, _), PresMembers(_, _, _), PresProp(_, _, _, _)
PresItem(x, st) ==
  CASE x.k = "iri" -> JStr(x.iri)
    [] x.k = "obj" -> JObj(PresMembers(Props(x.g), x.p, st))
    [] x.k = "list" -> JArr([i \in 1..Len(x.e) |-> PresItem(x.e[i], st)])
    [] x.k = "iris" -> JArr([i \in 1..Len(x.e) |-> JStr(x.e[i])])
\* members in table order; a property may expand to one member (term or termMap)
PresMembers(rows, p, st) ==
  LET present == SelectSeq(rows, LAMBDA r : r.t \in DOMAIN p)
  IN [i \in 1..Len(present) |-> PresProp(present[i].t, present[i].k, p[present[i].t], st)]
PresProp(t, kind, x, st) ==
  CASE kind = "item" -> Mem(t, IF st.item = "arr" /\ x.k # "list" THEN JArr(<<PresItem(x, st)>>) ELSE PresItem(x, st))
    [] kind = "items" -> Mem(t, IF st.items = "min" /\ Len(x.e) = 1 THEN PresItem(x.e[1], st) ELSE PresItem(x, st))
    [] kind = "nlv" -> IF Len(x.e) = 1 /\ x.e[1].r = NilTag THEN Mem(t, JStr(x.e[1].t))
                       ELSE IF Len(x.e) = 1 /\ st.nlv = "min" THEN Mem(t, JObj(<<Mem(x.e[1].r, JStr(x.e[1].t))>>))   \* map under the plain term
                       ELSE Mem(t \o "Map", JObj([i \in 1..Len(x.e) |-> Mem(x.e[i].r, JStr(x.e[i].t))]))
    [] kind = "time" -> Mem(t, [j |-> "str", v |-> TimeStr(x), ts |-> x.s])
    [] kind = "dur" -> Mem(t, [j |-> "str", v |-> DurStr(x), ds |-> x.s])
    [] kind \in {"uint", "int"} -> Mem(t, JNum(x.n))
    [] kind = "float" -> Mem(t, JFlt(x.f))
    [] kind = "bool" -> Mem(t, JBool(x.b))
    [] kind \in {"source", "endpoints", "pubkey"} -> Mem(t, JObj(PresMembers(SubRows(kind), x.p, st)))
    [] OTHER -> Mem(t, JStr(x.s))
Pres(v, st) == PresItem(v, st)

(***************************************************************************)
(* Dec: what a document denotes.                                            *)
(***************************************************************************)
RECURSIVE DecItem(_), DecObj(_), DecMap(_, _), DecProp(_, _, _)
NlvOfObj(n) == Nlv([i \in 1..Len(n.m) |-> LR(n.m[i].k, n.m[i].n.v)])
DecItem(n) ==
  CASE n.j = "str" -> Iri(n.v)
    [] n.j = "obj" -> DecObj(n)
    [] n.j = "arr" -> LET es == SelectSeq([i \in 1..Len(n.e) |-> DecItem(n.e[i])], LAMBDA x : x.k # "nil") IN ListOf(es)
    [] OTHER -> NilItem
DecObj(n) ==
  LET tn == Lookup(n, "type")
      typ == IF tn.j = "str" THEN tn.v ELSE ""
      g == GoType(typ)
  IN IF g = "none" THEN NilItem
     ELSE LET p == DecMap(Props(g), n) IN IF DOMAIN p = {} THEN NilItem ELSE [k |-> "obj", g |-> g, ptr |-> TRUE, p |-> p]
\* decode every declared row that the document sets
DecMap(rows, n) ==
  LET vals == [i \in 1..Len(rows) |-> DecProp(rows[i].t, rows[i].k, n)]
      set == {i \in 1..Len(rows) : vals[i].k # "unset"}
  IN [t \in {rows[i].t : i \in set} |-> vals[CHOOSE i \in set : rows[i].t = t]]
UnsetV == [k |-> "unset"]
\* (one legacy spelling is a reading of the vocabulary term: documents this package wrote before carry "hrefLang")
LegacyName(t) == IF t = "hreflang" THEN "hrefLang" ELSE t
DecProp(t, kind, n) ==
  LET x == IF Lookup(n, t).j = "none" THEN Lookup(n, LegacyName(t)) ELSE Lookup(n, t) IN
  CASE kind = "nlv" ->
         IF x.j = "str" THEN (IF x.v = "" THEN UnsetV ELSE Nlv(<<LR(NilTag, x.v)>>))
         ELSE IF x.j = "obj" THEN (IF x.m = <<>> THEN UnsetV ELSE NlvOfObj(x))
         ELSE LET y == Lookup(n, t \o "Map") IN IF y.j = "obj" /\ y.m # <<>> THEN NlvOfObj(y) ELSE UnsetV
    [] x.j \in {"none", "null"} -> UnsetV
    [] kind = "item" -> LET v == DecItem(x) IN
                        IF v.k = "nil" \/ (v.k = "list" /\ v.e = <<>>) THEN UnsetV
                        ELSE IF v.k = "list" /\ Len(v.e) = 1 THEN v.e[1] ELSE v
    [] kind = "items" -> LET v == DecItem(x) IN
                         IF v.k = "nil" \/ (v.k = "list" /\ v.e = <<>>) THEN UnsetV
                         ELSE IF v.k = "list" THEN v ELSE ListOf(<<v>>)
    [] kind = "time" -> IF x.j = "str" /\ "ts" \in DOMAIN x THEN [k |-> "time", s |-> x.ts, ns |-> 0, off |-> 0] ELSE UnsetV
    [] kind = "dur" -> IF x.j = "str" /\ "ds" \in DOMAIN x /\ x.ds # 0 THEN [k |-> "dur", s |-> x.ds, ns |-> 0] ELSE UnsetV
    [] kind \in {"uint", "int"} -> IF x.j = "num" /\ "n" \in DOMAIN x /\ x.n # 0 THEN Int(x.n) ELSE UnsetV
    [] kind = "float" -> IF x.j = "num" THEN (IF "f" \in DOMAIN x THEN Flt(x.f) ELSE IF x.n # 0 THEN Flt(ToString(x.n)) ELSE UnsetV) ELSE UnsetV
    [] kind = "bool" -> IF x.j = "bool" /\ x.b THEN [k |-> "bool", b |-> TRUE] ELSE UnsetV
    [] kind \in {"source", "endpoints", "pubkey"} ->
         IF x.j = "obj" THEN LET p == DecMap(SubRows(kind), x) IN IF DOMAIN p = {} THEN UnsetV ELSE [k |-> kind, p |-> p] ELSE UnsetV
    [] OTHER -> IF x.j = "str" /\ x.v # "" THEN Str(x.v) ELSE UnsetV
Dec(doc) == DecItem(doc)

\* normal form of a value as a document denotes it: like NFItem, but a language tag written in a map is kept
RECURSIVE DFItem(_), DFProp(_, _), DFMap(_, _)
DFItem(v) ==
  CASE v.k \in {"nil", "iri"} -> v
    [] v.k = "iris" -> ListOf(MapSeq(v.e, Iri))
    [] v.k = "list" -> ListOf([i \in 1..Len(v.e) |-> DFItem(v.e[i])])
    [] v.k = "obj" -> [k |-> "obj", g |-> v.g, ptr |-> TRUE, p |-> DFMap(Props(v.g), v.p)]
DFMap(rows, p) == [t \in {u \in DOMAIN p : ~IsEmptyText(p[u])} |-> DFProp(RowKind(rows, t), p[t])]     \* an all-empty text list is absent (as in NFMap)
DFProp(kind, x) ==
  CASE kind = "item" -> LET y == DFItem(x) IN IF y.k = "list" /\ Len(y.e) = 1 THEN y.e[1] ELSE y
    [] kind = "items" -> DFItem(x)
    [] kind = "time" -> [k |-> "time", s |-> x.s, ns |-> 0, off |-> 0]
    [] kind \in {"source", "endpoints", "pubkey"} -> [k |-> kind, p |-> DFMap(SubRows(kind), x.p)]
    [] OTHER -> x

(***************************************************************************)
(* WireOK: what the library WRITES must use declared terms and kinds.       *)
(***************************************************************************)
NodeKindOK(kind, n, isMap) ==
  CASE kind = "nlv" -> IF isMap THEN n.j = "obj" ELSE n.j \in {"str", "obj"}
    [] kind \in {"item", "items"} -> n.j \in {"str", "obj", "arr"}
    [] kind = "time" -> n.j = "str" /\ "ts" \in DOMAIN n
    [] kind = "dur" -> n.j = "str" /\ "ds" \in DOMAIN n
    [] kind = "uint" -> n.j = "num" /\ ~("neg" \in DOMAIN n /\ n.neg)        \* a count is never written with a minus sign
    [] kind \in {"int", "float"} -> n.j = "num"
    [] kind = "bool" -> n.j = "bool"
    [] kind \in {"source", "endpoints", "pubkey"} -> n.j = "obj"
    [] OTHER -> n.j = "str"
RECURSIVE WireWhy(_, _), WireChild(_)
IsMapTerm(rows, k) == \E i \in 1..Len(rows) : rows[i].k = "nlv" /\ rows[i].t \o "Map" = k
BaseTerm(rows, k) == IF k \in Terms(rows) THEN k ELSE (CHOOSE i \in 1..Len(rows) : rows[i].t \o "Map" = k)
WireChild(n) ==
  CASE n.j = "obj" -> LET tn == Lookup(n, "type") g == GoType(IF tn.j = "str" THEN tn.v ELSE "")
                      IN IF g = "none" THEN {} ELSE WireWhy(Props(g), n)
    [] n.j = "arr" -> UNION {WireChild(n.e[i]) : i \in 1..Len(n.e)}
    [] OTHER -> {}
WireWhy(rows, n) ==
  UNION {LET k == n.m[i].k IN
         IF k = "@context" THEN {}
         ELSE IF k \notin Terms(rows) /\ ~IsMapTerm(rows, k) THEN {"undeclared-term:" \o k}
         ELSE IF \E j \in 1..Len(n.m) : j # i /\ n.m[j].k = k THEN {"duplicate-term:" \o k}
         ELSE LET isMap == k \notin Terms(rows)
                  t == IF isMap THEN rows[BaseTerm(rows, k)].t ELSE k
                  kind == RowKind(rows, t)
              IN (IF NodeKindOK(kind, n.m[i].n, isMap) THEN {} ELSE {"wrong-kind:" \o k})
                 \cup (IF kind \in {"item", "items"} THEN WireChild(n.m[i].n)
                       ELSE IF kind \in {"source", "endpoints", "pubkey"} /\ n.m[i].n.j = "obj" THEN WireWhy(SubRows(kind), n.m[i].n) ELSE {})
         : i \in 1..Len(n.m)}
WireOKWhy(n) == WireChild(n)

\* the written form of value v must carry exactly the member names the reference writer uses for v (same terms, nothing added or
\* missing), at the top level and inside source / endpoints / publicKey
MemberNames(n) == IF n.j = "obj" THEN {n.m[i].k : i \in 1..Len(n.m)} ELSE {}
RECURSIVE NamesWhy(_, _, _)
NamesWhy(rows, p, n) ==
  LET ref == PresMembers(rows, p, [item |-> "min", items |-> "arr", nlv |-> "map"])
      want == {ref[i].k : i \in 1..Len(ref)}
      got == MemberNames(n) \ {"@context"}
      \* an explicitly written zero (totalItems: 0, closed: false) says nothing the absent property would not
      isZero(x) == (x.j = "num" /\ "n" \in DOMAIN x /\ x.n = 0) \/ (x.j = "bool" /\ ~x.b)
  IN {"missing-term:" \o k : k \in want \ got} \cup {"unexpected-term:" \o k : k \in {u \in got \ want : ~isZero(Lookup(n, u))}}
     \cup UNION {IF RowKind(rows, t) \in {"source", "endpoints", "pubkey"} /\ Lookup(n, t).j = "obj"
                 THEN NamesWhy(SubRows(RowKind(rows, t)), p[t].p, Lookup(n, t)) ELSE {} : t \in DOMAIN p}
WrittenNamesWhy(v, n) == IF v.k = "obj" /\ n.j = "obj" THEN NamesWhy(Props(v.g), v.p, n) ELSE {}

-----------------------------------------------------------------------------
(* The read pipeline as a machine: a document is decoded, re-encoded (in the  *)
(* minimal style), decoded again.                                             *)
CONSTANT Universe
VARIABLES doc, val, phase, orig, style
vars == <<doc, val, phase, orig, style>>
Init == \E c \in Universe, st \in Styles : orig = c.v /\ style = st /\ doc = Pres(c.v, st) /\ val = NilItem /\ phase = "document"
DecodeAct == phase \in {"document", "reencoded"} /\ val' = Dec(doc)
             /\ phase' = (IF phase = "document" THEN "decoded" ELSE "redecoded") /\ UNCHANGED <<doc, orig, style>>
ReencodeAct == phase = "decoded" /\ doc' = Pres(val, [item |-> "min", items |-> "arr", nlv |-> "map"]) /\ phase' = "reencoded"
               /\ UNCHANGED <<val, orig, style>>
Next == DecodeAct \/ ReencodeAct
Spec == Init /\ [][Next]_vars
\* decoding reads what the document says ...
ReadsWhatItSays == phase = "decoded" => val = DFItem(orig)
\* ... and decode(encode(.)) is a fixpoint
Fixpoint == phase = "redecoded" => val = DFItem(orig)
\* what the reference writer produces satisfies the term/kind rules
WriterOK == WireOKWhy(doc) = {}
=============================================================================
