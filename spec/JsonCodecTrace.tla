--------------------------- MODULE JsonCodecTrace ---------------------------
(* Leg V for C05 (+ the term/kind clause of C02).  Events:                    *)
(*  {"ev":"read","doc":tree,"out1":value,"wire1":tree,"out2":value,"fix":B,"err":S}  *)
(* doc: the document (tagged tree, written to bytes by encoding/json); out1: what the library decoded; wire1: what it *)
(* re-encoded (parsed back by encoding/json); out2: decoded again; fix: second encoding byte-identical to the first.  *)
EXTENDS JsonCodec, Json, IOUtils
VARIABLES l, bad, done
Tr == ndJsonDeserialize("c05_trace.ndjson")
Chunk == 100
E(g, t, sym) == [g |-> g, t |-> t, path |-> <<>>, sym |-> sym]
Why(ev) ==
  IF ev.ev = "wire" THEN
     IF ev.err # "" THEN <<E("wire", ev.err, "written-form")>>
     ELSE LET w == WireOKWhy(ev.wire) \cup WrittenNamesWhy(NFItem(ev.in), ev.wire)
          IN IF w = {} THEN <<>> ELSE <<E("wire", CHOOSE x \in w : TRUE, "written-form")>>
  ELSE IF ev.err # "" THEN <<E("top", "top", "error")>>
  ELSE LET want == Dec(ev.doc)
           d1 == Diff(DFItem(want), DFItem(ev.out1))       \* an array of one in a single-item position IS that element
           w == IF ev.wire1.j = "none" THEN {} ELSE WireOKWhy(ev.wire1)
       IN d1
          \o (IF d1 # <<>> \/ ev.out1.k = "nil" THEN <<>> ELSE
                LET d2 == Diff(NFItem(ev.out1), NFItem(ev.out2)) IN IF d2 = <<>> THEN <<>> ELSE <<[d2[1] EXCEPT !.sym = "second-trip-" \o d2[1].sym]>>)
          \o (IF ev.fix THEN <<>> ELSE <<E("top", "top", "bytes-keep-changing")>>)
          \o (IF w = {} THEN <<>> ELSE <<E("wire", CHOOSE x \in w : TRUE, "written-form")>>)
INSTANCE EventJudge
TraceSpec == JInit /\ doc = NoNode /\ val = NilItem /\ phase = "judge" /\ orig = NilItem /\ style = [item |-> "min"]
             /\ [][(JStep \/ JFinish) /\ UNCHANGED vars]_<<jvars, vars>>
=============================================================================
