--------------------------- MODULE RecipientsGen ---------------------------
(* Leg G for C10: TLC explores the Recipients machine over a larger pool and  *)
(* prints every transition (value before, value after, returned list) as one  *)
(* JSON line; the harness performs the same call on the real types.           *)
EXTENDS Recipients, Json

E(w, f) == [w |-> w, f |-> f]
Forms == {"iri", "https", "upper", "slash", "pathcase", "actor", "object"}
Public == E(9, "iri")
PoolA == {Nil, Public} \cup {E(w, f) : w \in {1, 2}, f \in Forms}                      \* with MaxTotal = 2
PoolB == {Nil, Public, E(1, "iri"), E(1, "https"), E(1, "actor"), E(2, "iri"), E(2, "pathcase"), E(2, "object")}  \* MaxTotal = 3
PoolC == {Nil, E(1, "iri"), E(1, "slash"), E(2, "object"), E(3, "iri")}                \* MaxTotal = 4

GHeads == [class : {"plain", "activity"}, actor : {Nil}, object : {Nil}]
          \cup [class : {"block"}, actor : {Nil}, object : {Nil, E(1, "actor"), E(1, "iri"), E(2, "object"), E(1, "list1")}]   \* list1: the blocked one as a list of one
          \cup [class : {"intransitive"}, actor : {Nil, E(1, "actor"), E(1, "https"), E(2, "iri"), E(1, "list1")}, object : {Nil}]
          \cup [class : {"question"}, actor : {Nil, E(2, "actor"), E(2, "list1")}, object : {Nil}]

GInit == /\ \E all \in Lists(MaxTotal) : \E c \in Cuts(Len(all)) : \E h \in GHeads :
              st = h @@ Cut(all, c[1], c[2], c[3], c[4])
         /\ ret = <<>> /\ phase = "built" /\ st0 = <<>>
GNext == Recipients /\ UNCHANGED st0 /\ PrintT("@@ " \o ToJson([pre |-> st, post |-> st', ret |-> ret']))
GSpec == GInit /\ [][GNext]_hvars
=============================================================================
