-------------------------- MODULE CollectionsGen --------------------------
(* Leg G for C13: every transition of the Collections machine, written as   *)
(* one JSON line [kind, pre, op, post, res]; the Go harness rebuilds `pre`  *)
(* by appending, performs `op` on the real container and reports what it    *)
(* observed; CollectionsTrace then judges the observed events.              *)
EXTENDS Collections, Json, IOUtils, SequencesExt, FiniteSetsExt

DupFree == UNION {{s \in [1..n -> Ids] : NoDup(s)} : n \in 0..Cardinality(Ids)}

ExtraOps(k) == {[o |-> "First"], [o |-> "IRIs"], [o |-> "Normalize"]} \cup {[o |-> "AppendMany", xs |-> <<x, y, x>>] : x, y \in Ids}
               \cup {[o |-> "ItemsMatch", xs |-> <<x, y>>] : x, y \in Ids}

Cases == UNION {{[kind |-> k, pre |-> s, op |-> op, post |-> ApplyOp(s, op).m, res |-> ApplyOp(s, op).res]
                  : op \in OpsFor(k) \cup ExtraOps(k)} : k \in Kinds, s \in DupFree}

GenInit == kind = "ItemCollection" /\ m = <<>> /\ res = [k |-> "init"]
GenNext == FALSE /\ UNCHANGED vars

ASSUME ndJsonSerialize("c13_cases.ndjson", SetToSeq(Cases))
ASSUME PrintT("@@ " \o ToString(Cardinality(Cases)))
=============================================================================
