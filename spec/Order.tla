------------------------------- MODULE Order -------------------------------
(***************************************************************************)
(* C17 -- ItemOrderTimestamp as a strict weak order, newest first.         *)
(*                                                                         *)
(* An item is "nil" or an object with two instants (published, updated).   *)
(* Instants are abstract points 0 < 1 < 2 < ... where 0 is the zero        *)
(* (unset) instant; the time zone an instant is presented in is not part   *)
(* of its identity.  Key = the later of the two.                           *)
(*                                                                         *)
(* The machine sorts a list by repeatedly swapping an adjacent pair that   *)
(* the comparator says is out of order (any sorting algorithm built on a   *)
(* comparator is a refinement of this); TLC checks that it can only stop   *)
(* in newest-first order and that it always stops.                         *)
(***************************************************************************)
EXTENDS Naturals, Sequences, FiniteSets, TLC

CONSTANTS Instants,   \* e.g. 0..3, 0 = zero instant
          MaxLen

Nil == [k |-> "nil"]
Objs == [k : {"obj"}, p : Instants, u : Instants]
Items == {Nil} \cup Objs

Max(a, b) == IF a > b THEN a ELSE b
Key(i) == Max(i.p, i.u)

\* the comparator: TRUE when a must be ranked before b
Less(a, b) == IF a.k = "nil" THEN b.k # "nil"
              ELSE IF b.k = "nil" THEN FALSE
              ELSE Key(a) > Key(b)

Incomparable(a, b) == ~Less(a, b) /\ ~Less(b, a)

\* ---- strict weak order laws over the whole item space ---------------------
Irreflexive == \A a \in Items : ~Less(a, a)
Asymmetric  == \A a, b \in Items : Less(a, b) => ~Less(b, a)
Transitive  == \A a, b, c \in Items : Less(a, b) /\ Less(b, c) => Less(a, c)
IncompTrans == \A a, b, c \in Items : Incomparable(a, b) /\ Incomparable(b, c) => Incomparable(a, c)
NilFirst    == \A a \in Objs : Less(Nil, a) /\ ~Less(a, Nil)
ASSUME Irreflexive /\ Asymmetric /\ Transitive /\ IncompTrans /\ NilFirst

\* newest-first: no later element must be ranked before an earlier one
Sorted(xs) == \A i, j \in 1..Len(xs) : i < j => ~Less(xs[j], xs[i])
\* rank used to state the result on keys only: nil highest
Rank(i) == IF i.k = "nil" THEN 1000 ELSE Key(i)
NewestFirst(xs) == \A i \in 1..(Len(xs) - 1) : Rank(xs[i]) >= Rank(xs[i + 1])

-----------------------------------------------------------------------------
VARIABLES xs, orig
vars == <<xs, orig>>

\* a reduced item space keeps the sorting machine small: one object per key
SortItems == {Nil} \cup {[k |-> "obj", p |-> t, u |-> 0] : t \in Instants} \cup {[k |-> "obj", p |-> 0, u |-> t] : t \in Instants}

Init == xs \in UNION {[1..n -> SortItems] : n \in 0..MaxLen} /\ orig = xs

SwapAt(i) == /\ i < Len(xs) /\ Less(xs[i + 1], xs[i])
             /\ xs' = [xs EXCEPT ![i] = xs[i + 1], ![i + 1] = xs[i]]
             /\ UNCHANGED orig
Next == \E i \in 1..Len(xs) : SwapAt(i)
Spec == Init /\ [][Next]_vars /\ WF_vars(Next)

Bag(s) == [x \in Items |-> Cardinality({i \in 1..Len(s) : s[i] = x})]
PermInv == Bag(xs) = Bag(orig)                            \* sorting neither loses nor invents
StopSorted == (~ENABLED Next) => (Sorted(xs) /\ NewestFirst(xs))
Terminates == <>(~ENABLED Next)
=============================================================================
