--------------------------- MODULE EqualityTrace ---------------------------
(* Leg V for C09.  Events: {"ev":"eq","x":item,"y":item,"res":BOOLEAN|"panic"|"timeout"}. *)
EXTENDS Equality, Json, IOUtils
VARIABLES l, bad, done
Tr == ndJsonDeserialize("c09_trace.ndjson")
Chunk == 200
Why(ev) ==
  IF ev.res.k # "bool" THEN <<ev.res.k>>
  ELSE LET t == LawsTrue(ev.x, ev.y) f == LawsFalse(ev.x, ev.y)
       IN IF t # {} /\ ~ev.res.b THEN <<"not-equal">> \o (IF "Refl" \in t THEN <<"Refl">> ELSE <<"NilNil">>)
          ELSE IF f # {} /\ t = {} /\ ev.res.b THEN <<"equal">> \o (IF "NilNon" \in f THEN <<"NilNon">> ELSE IF "IdDiff" \in f THEN <<"IdDiff">>
                                                       ELSE IF "TypeDiff" \in f THEN <<"TypeDiff">> ELSE <<"Mut">>)
          ELSE <<>>
INSTANCE EventJudge
TraceSpec == JInit /\ x = NilItem /\ y = NilItem /\ res = FALSE /\ phase = "judge"
             /\ [][(JStep \/ JFinish) /\ UNCHANGED vars]_<<jvars, vars>>
=============================================================================
