--------------------------- MODULE NatLangTrace ---------------------------
(* Leg V for C19.  Lines: {"ev":"reset"} | {"ev":"op","op":..,"post":[..],"res":..} *)
(* | {"ev":"eq","a":[..],"b":[..],"res":BOOLEAN}.  Same resynchronising scheme as   *)
(* CollectionsTrace: rejected steps are collected, the rest is still checked.        *)
EXTENDS NatLang, Json, IOUtils

Tr == ndJsonDeserialize("c19_trace.ndjson")

VARIABLES l, bad, done
tvars == <<e, res, l, bad, done>>

TraceInit == e = <<>> /\ res = [k |-> "init"] /\ l = 1 /\ bad = <<>> /\ done = FALSE

Reset == /\ l <= Len(Tr) /\ Tr[l].ev = "reset"
         /\ e' = <<>> /\ res' = [k |-> "init"] /\ l' = l + 1 /\ UNCHANGED <<bad, done>>

StepOp == /\ l <= Len(Tr) /\ Tr[l].ev = "op"
          /\ LET ev == Tr[l] IN
               /\ e' = ev.post /\ res' = ev.res
               /\ bad' = IF StepOK(e, ev.op, ev.post, ev.res) THEN bad
                         ELSE Append(bad, [l |-> l, op |-> ev.op.o, why |-> "step"])
          /\ l' = l + 1 /\ UNCHANGED done

StepEq == /\ l <= Len(Tr) /\ Tr[l].ev = "eq"
          /\ LET ev == Tr[l] IN
               bad' = IF ~(TagsDistinct(ev.a) /\ TagsDistinct(ev.b)) \/ ev.res = EqF(ev.a, ev.b) THEN bad
                      ELSE Append(bad, [l |-> l, op |-> "Equals",
                                        why |-> IF ev.a = ev.b THEN "irreflexive"
                                                ELSE IF ev.res THEN "false-positive" ELSE "false-negative"])
          /\ l' = l + 1 /\ UNCHANGED <<e, res, done>>

Finish == /\ l = Len(Tr) + 1 /\ ~done /\ done' = TRUE
          /\ PrintT("@@ " \o ToJson([consumed |-> l - 1, bad |-> bad]))
          /\ UNCHANGED <<e, res, l, bad>>

TraceNext == Reset \/ StepOp \/ StepEq \/ Finish
TraceSpec == TraceInit /\ [][TraceNext]_tvars
=============================================================================
