---------------------------- MODULE DispatchGen ----------------------------
(* Leg G for C07: the whole request space with the specified reply.          *)
EXTENDS Dispatch, Json, IOUtils, SequencesExt, FiniteSetsExt
Cases == {[ch |-> ch, n |-> n, hooks |-> h, expect |-> IF InVocabulary(n) \/ h = "unset" THEN Reply(n, ch) ELSE [kind |-> "extension"]]
           : ch \in Channels, n \in Names, h \in {"unset", "set"}}
         \ {c \in [ch : {"gob-top", "gob-item", "gob-list"}, n : {"IRI", "ItemCollection"}, hooks : {"unset", "set"}, expect : {[kind |-> "nothing"], [kind |-> "extension"]}] : TRUE}
\* (the pseudo-types IRI / ItemCollection have no struct value that could be gob-encoded "bearing that type")
GenInit == Init
GenNext == FALSE /\ UNCHANGED vars
ASSUME ndJsonSerialize("c07_cases.ndjson", SetToSeq(Cases))
=============================================================================
