------------------------------ MODULE CollPath ------------------------------
(***************************************************************************)
(* C15 -- collection IRIs and their owners.                                *)
(*                                                                         *)
(* Built on IRI.tla: an owner is an IRI presentation without query and     *)
(* fragment.  Join(o, c) appends the collection name as a path segment,    *)
(* Split(i) removes a trailing collection name.  The machine walks         *)
(* owner -> Join -> (Join ->) Split -> Split so that owners whose own      *)
(* segments are collection names are reached; TLC checks the round trip    *)
(* and validity laws in every state.                                       *)
(***************************************************************************)
EXTENDS IRI

Names == {"inbox", "outbox", "followers", "following", "liked", "likes", "shares", "replies"}
ActorNames == {"inbox", "outbox", "followers", "following", "liked"}
ObjectNames == {"likes", "shares", "replies"}

NoQuery == [raw |-> FALSE, ps |-> <<>>]
LastSeg(i) == IF i.path.segs = <<>> THEN "" ELSE i.path.segs[Len(i.path.segs)]
IsName(s) == LowerOf(s) \in Names

Join(o, c) == [o EXCEPT !.path = [segs |-> Append(o.path.segs, c), ts |-> FALSE]]
ButLast(i) == [i EXCEPT !.path = [segs |-> SubSeq(i.path.segs, 1, Len(i.path.segs) - 1), ts |-> FALSE]]
Valid(i) == IsName(LastSeg(i))
\* Split: owner and collection name ("" = unknown)
SplitOwner(i) == IF i.path.segs = <<>> THEN i ELSE ButLast(i)
SplitName(i) == IF Valid(i) THEN LowerOf(LastSeg(i)) ELSE ""

SameIRI(a, b) == Equiv(a, b, TRUE)

\* the helper rule: explicit property wins, else the built IRI
\* (a nil pointer or an empty IRI in the property is as good as no property)
Absent(explicit) == explicit.k \in {"none", "nil-pointer", "empty-iri"}
OfRule(id, c, explicit) == IF Absent(explicit) THEN Join(id, c) ELSE explicit.iri

\* which Go value kinds carry which collection properties
HasProp(kind, c) == (kind = "actor" /\ c \in Names) \/ (kind = "object" /\ c \in ObjectNames)

-----------------------------------------------------------------------------
CONSTANTS Owners, MaxDepth
VARIABLES cur, stack          \* current IRI presentation; names joined so far (top last)
cvars == <<cur, stack>>

CInit == cur \in Owners /\ stack = <<>>
JoinAct(c) == Len(stack) < MaxDepth /\ cur' = Join(cur, c) /\ stack' = Append(stack, c)
SplitAct == stack # <<>> /\ cur' = SplitOwner(cur) /\ stack' = SubSeq(stack, 1, Len(stack) - 1)
CNext == (\E c \in Names : JoinAct(c)) \/ SplitAct
CSpec == CInit /\ [][CNext]_cvars

\* after any number of joins the top of the stack is what Split reports, and the owner comes back
RoundTrip == stack # <<>> => /\ SplitName(cur) = stack[Len(stack)]
                             /\ Valid(cur)
                             /\ \A c \in Names : SameIRI(SplitOwner(Join(cur, c)), cur) /\ SplitName(Join(cur, c)) = c
OwnerInvalid == (stack = <<>> /\ ~IsName(LastSeg(cur))) => ~Valid(cur)
\* splitting as often as joined returns to an IRI equivalent to the initial owner
Unwound == [][stack' = <<>> => \E o \in Owners : SameIRI(cur', o)]_cvars
=============================================================================
