------------------------- MODULE CollectionsTrace -------------------------
(* Leg V for C13: validates events recorded from the real containers.       *)
(* Trace lines: {"ev":"reset","kind":K}  |  {"ev":"op","op":{...},          *)
(* "post":[ids],"res":{...}}.  Every op event logs its arguments, the reply *)
(* and the full projected contents, so the search is linear.  A step that   *)
(* is not a Collections step (or a logged state that breaks an invariant)   *)
(* is recorded in `bad` with its line number and the machine resynchronises *)
(* on the logged state, so that the REST of the trace is still checked.     *)
EXTENDS Collections, Json, IOUtils

Tr == ndJsonDeserialize("c13_trace.ndjson")

VARIABLES l, bad, done
tvars == <<kind, m, res, l, bad, done>>

TraceInit == /\ kind = "ItemCollection" /\ m = <<>> /\ res = [k |-> "init"]
             /\ l = 1 /\ bad = <<>> /\ done = FALSE

Reset == /\ l <= Len(Tr) /\ Tr[l].ev = "reset"
         /\ kind' = Tr[l].kind /\ m' = <<>> /\ res' = [k |-> "init"]
         /\ l' = l + 1 /\ UNCHANGED <<bad, done>>

StepOp == /\ l <= Len(Tr) /\ Tr[l].ev = "op"
          /\ LET e == Tr[l]
                 a == ApplyOp(m, e.op)
                 why == IF e.op.o = "Remove" /\ ~HasRemove(kind) THEN <<>>   \* not demanded
                        ELSE (IF a.m # e.post THEN <<"contents">> ELSE <<>>)
                          \o (IF a.res # e.res THEN <<"reply">> ELSE <<>>)
                          \o (IF NoDup(m) /\ ~NoDup(e.post) THEN <<"SetInv">> ELSE <<>>)
                          \o (IF ~IsSubSeqOrder(m, e.post) THEN <<"Order">> ELSE <<>>)
             IN /\ m' = e.post /\ res' = e.res
                /\ bad' = IF why = <<>> THEN bad ELSE Append(bad, [l |-> l, why |-> why, op |-> e.op.o, kind |-> kind])
          /\ l' = l + 1 /\ UNCHANGED <<kind, done>>

Finish == /\ l = Len(Tr) + 1 /\ ~done /\ done' = TRUE
          /\ PrintT("@@ " \o ToJson([consumed |-> l - 1, bad |-> bad]))
          /\ UNCHANGED <<kind, m, res, l, bad>>

TraceNext == Reset \/ StepOp \/ Finish
TraceSpec == TraceInit /\ [][TraceNext]_tvars
=============================================================================
