---------------------------- MODULE JsonRTTrace ----------------------------
(* Leg V for C01/C03.  Events: {"ev":"rt","codec":"json"|"gob","via":entry pair,"lab":..,"in":value,"out":value,"err":S} *)
(* recorded from the real encode->decode pairs.  The expected value is computed here (NFItem / GFItem).                 *)
EXTENDS JsonRT, Json, IOUtils
VARIABLES l, bad, done
Tr == ndJsonDeserialize("rt_trace.ndjson")
Chunk == 200
Why(ev) ==
  IF ev.err # "" THEN <<[g |-> "top", t |-> "top", path |-> <<>>, sym |-> "error"]>>
  ELSE Diff(IF ev.codec = "json" THEN NFItem(ev.in) ELSE GFItem(ev.in), ev.out)
INSTANCE EventJudge
TraceSpec == JInit /\ phase = "judge" /\ codec = "json" /\ orig = NilItem /\ val = NilItem
             /\ [][(JStep \/ JFinish) /\ UNCHANGED vars]_<<jvars, vars>>
=============================================================================
