---------------------------- MODULE JsonRTTrace ----------------------------
(* Leg V for C01/C03.  Events: {"ev":"rt","codec":"json"|"gob","via":entry pair,"lab":..,"in":value,"out":value,"err":S} *)
(* recorded from the real encode->decode pairs.  The expected value is computed here (NFItem / GFItem).                 *)
EXTENDS JsonRT, Json, IOUtils
VARIABLES l, bad, done
Tr == ndJsonDeserialize("rt_trace.ndjson")
Chunk == 200
Why(ev) ==
  IF ev.err # "" THEN <<[g |-> "top", t |-> "top", path |-> <<>>, sym |-> "error"]>>
  ELSE LET e == IF ev.codec = "json" THEN NFItem(ev.in) ELSE GFItem(ev.in)
           \* a type's own decoder fills the struct it is called on: only the package-level pair chooses the struct by the type name
       IN Diff(IF ev.via # "pkg" /\ e.k = "obj" /\ ev.in.k = "obj" THEN [e EXCEPT !.g = ev.in.g] ELSE e, ev.out)
INSTANCE EventJudge
TraceSpec == JInit /\ phase = "judge" /\ codec = "json" /\ orig = NilItem /\ val = NilItem
             /\ [][(JStep \/ JFinish) /\ UNCHANGED vars]_<<jvars, vars>>
=============================================================================
