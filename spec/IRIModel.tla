------------------------------ MODULE IRIModel ------------------------------
(* Leg M configuration of IRI.tla: the list machine over a pool of 8          *)
(* presentations forming 4 classes.                                           *)
EXTENDS IRI
Mk(s, h, segs, ts, ps, f) == [sch |-> s, host |-> h, path |-> [segs |-> segs, ts |-> ts], query |-> [raw |-> ps # <<>>, ps |-> ps], frag |-> f]
X1 == [k |-> "x", v |-> "1"]
X2 == [k |-> "x", v |-> "2"]
ModelPool == {Mk("http", "example.com", <<"a">>, FALSE, <<>>, ""), Mk("HTTPS", "EXAMPLE.COM", <<".", "A">>, TRUE, <<>>, "f"),
              Mk("http", "example.com", <<"a">>, FALSE, <<X1, X2>>, ""), Mk("http", "example.com", <<"a">>, FALSE, <<X2, X1>>, "g"),
              Mk("http", "example.com", <<"a">>, FALSE, <<X1, X1>>, ""), Mk("http", "example.org", <<"a">>, FALSE, <<>>, ""),
              Mk("https", "example.org", <<"b", "..", "a">>, TRUE, <<>>, ""), Mk("http", "example.com", <<>>, TRUE, <<>>, "")}
=============================================================================
