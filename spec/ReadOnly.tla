------------------------------ MODULE ReadOnly ------------------------------
(***************************************************************************)
(* C12 -- read-only operations on a shared value.                          *)
(*                                                                         *)
(* The shared value is a heap of cells (struct fields, slice elements      *)
(* including the spare capacity behind the length, bytes of text).  N      *)
(* goroutines each run a program of operations; an operation is a sequence *)
(* of atomic steps on cells.  A read-only operation only READS.  TLC       *)
(* explores every interleaving and checks in EVERY state that the heap     *)
(* still is the initial heap and, at the end, that each goroutine computed *)
(* what it would have computed alone.                                      *)
(*                                                                         *)
(* With Faulty = TRUE one operation is replaced by write-then-restore      *)
(* (scribbling into a slice's spare capacity, or un-escaping text in place *)
(* and putting it back): its before/after snapshots agree, yet HeapFrozen  *)
(* is violated in between and another goroutine can observe the scribble   *)
(* -- which is why the real-code leg needs the race detector and not only  *)
(* snapshots.                                                              *)
(***************************************************************************)
EXTENDS Naturals, Sequences, FiniteSets, TLC

CONSTANTS N,        \* goroutines
          Faulty    \* BOOLEAN: replace op "encode" of goroutine 1 by write-then-restore

Cells == {"id", "name.text", "to.elem", "to.spare"}
Heap0 == [c \in Cells |-> IF c = "to.spare" THEN "sentinel" ELSE "v-" \o c]

\* an operation = the sequence of cells it touches; its result = what it read
OpReads(op) == CASE op = "encode" -> <<"id", "name.text", "to.elem">>
                 [] op = "equal" -> <<"id", "to.elem">>
                 [] op = "inspect" -> <<"id">>
                 [] op = "format" -> <<"name.text", "id">>
Ops == {"encode", "equal", "inspect", "format"}
\* the faulty encoder: writes a temporary into the spare capacity, reads, restores
FaultySteps == << [a |-> "w", c |-> "to.spare", v |-> "tmp"], [a |-> "r", c |-> "id"], [a |-> "r", c |-> "to.spare"], [a |-> "w", c |-> "to.spare", v |-> "sentinel"] >>
Steps(g, op) == IF Faulty /\ g = 1 /\ op = "encode" THEN FaultySteps
                ELSE [i \in 1..Len(OpReads(op)) |-> [a |-> "r", c |-> OpReads(op)[i]]]
Sequential(g, op) == [i \in 1..Len(Steps(g, op)) |-> IF Steps(g, op)[i].a = "r" THEN Heap0[Steps(g, op)[i].c] ELSE "-"]

VARIABLES heap, prog, pc, seen
vars == <<heap, prog, pc, seen>>
G == 1..N
Init == /\ heap = Heap0
        /\ prog \in [G -> Ops]                 \* every assignment of one operation per goroutine
        /\ pc = [g \in G |-> 1]
        /\ seen = [g \in G |-> <<>>]
Step(g) == /\ pc[g] <= Len(Steps(g, prog[g]))
           /\ LET s == Steps(g, prog[g])[pc[g]] IN
                /\ heap' = IF s.a = "w" THEN [heap EXCEPT ![s.c] = s.v] ELSE heap
                /\ seen' = [seen EXCEPT ![g] = Append(@, IF s.a = "r" THEN heap[s.c] ELSE "-")]
           /\ pc' = [pc EXCEPT ![g] = @ + 1]
           /\ UNCHANGED prog
Next == \E g \in G : Step(g)
Spec == Init /\ [][Next]_vars

HeapFrozen == heap = Heap0                                                      \* every byte unchanged, in every state
SameAsSequential == \A g \in G : pc[g] > Len(Steps(g, prog[g])) => seen[g] = Sequential(g, prog[g])
\* what a before/after snapshot can see: the heap when nobody is inside an operation
SnapshotView == (\A g \in G : pc[g] = 1 \/ pc[g] > Len(Steps(g, prog[g]))) => heap = Heap0
=============================================================================
