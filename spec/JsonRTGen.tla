----------------------------- MODULE JsonRTGen -----------------------------
(* Leg G for C01/C03: the case families, one JSON line per case.            *)
EXTENDS JsonRT, Json, IOUtils, SequencesExt, FiniteSetsExt
CONSTANTS Gob, Tier
PairTypes == IF Tier = "thorough" THEN GoTypes ELSE {"Object", "Place", "Link"}
\* "nested to arbitrary depth": reply chains 50 and 120 levels deep (the Json module of TLC reads at most 255 nested JSON values, i.e. about 125 levels of the abstract value)
RECURSIVE ReplyChain(_)
ReplyChain(n) == IF n = 0 THEN Iri(Base \o "root") ELSE With(BaseV("Object", 1000 + n), "inReplyTo", ReplyChain(n - 1))
DeepCases == {Case("deep", "Object", "inReplyTo", "depth-" \o ToString(n), ReplyChain(n)) : n \in {50, 120}}
\* an IRI held by pointer (*IRI is an Item like the others: IsIRI and IsNil know it)
IriPtr(n) == [k |-> "iri", iri |-> Base \o "by-pointer/" \o ToString(n), ptr |-> TRUE]
IriPtrCases == {Case("iriptr", "IRI", "top", "iri-pointer", IriPtr(0))}
               \cup UNION {UNION {{Case("iriptr", g, t, "iri-pointer", With(BaseV(g, 1), t, IriPtr(1))),
                                    Case("iriptr", g, t, "iri-pointer-in-list", With(BaseV(g, 1), t, ListOf(<<I1, IriPtr(2), Note1>>)))}
                                   : t \in {"attachment", "actor", "object", "inbox", "first", "url"} \cap Terms(Props(g))}
                            : g \in {"Object", "Activity", "Actor", "OrderedCollection"}}
\* counts beyond 31 and 63 bits (TLC integers stop at 2^31: the number travels as decimal text next to n = 0)
BigInt(dec) == [k |-> "int", n |-> 0, s |-> dec]
BigIntCases == {Case("bigint", g, t, "big-" \o d, With(BaseV(g, 1), t, BigInt(d)))
                : g \in {"OrderedCollection", "CollectionPage", "OrderedCollectionPage", "Link"}, t \in {"totalItems", "startIndex", "width", "height"},
                  d \in {"4294967296", "9223372036854775807", "9223372036854775808", "18446744073709551615"}}
BigIntOK == {c \in BigIntCases : c.lab.t \in Terms(Props(c.lab.g))}
AllCases == BigIntOK \cup IriPtrCases \cup DeepCases \cup OneField(Gob) \cup UntypedOne(Gob) \cup AllTypeNames \cup CrossFamily \cup Nested1 \cup Full(Gob) \cup TopLevel \cup Pairwise(PairTypes, Gob)
ModelUniverse == IF Tier = "thorough" THEN OneField(TRUE) \cup AllTypeNames \cup CrossFamily \cup Nested1 \cup Full(TRUE) \cup TopLevel
                 ELSE {c \in OneField(TRUE) : c.lab.g \in {"Actor", "Question", "Place", "Link", "OrderedCollectionPage"}} \cup CrossFamily \cup Nested1 \cup Full(TRUE) \cup TopLevel
GenInit == phase = "gen" /\ codec = "json" /\ orig = NilItem /\ val = NilItem
GenNext == FALSE /\ UNCHANGED vars
ASSUME ndJsonSerialize("rt_cases.ndjson", SetToSeq(AllCases))
=============================================================================
