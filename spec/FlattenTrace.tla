---------------------------- MODULE FlattenTrace ----------------------------
(* Leg V for C16.  Events: {"ev":"flat","via":..,"pre":v,"post":v,"post2":v,"panic":B} *)
EXTENDS Flatten, Json, IOUtils
VARIABLES l, bad, done
Tr == ndJsonDeserialize("c16_trace.ndjson")
Chunk == 100
Why(ev) ==
  IF ev.panic THEN <<[t |-> "*", sym |-> "panic"]>>
  ELSE LET w == FlattenWhy(ev.pre, ev.post) \cup (IF Diff(ev.post, ev.post2) = <<>> THEN {} ELSE {[t |-> "*", sym |-> "not-idempotent"]})
       IN IF w = {} THEN <<>> ELSE <<CHOOSE x \in w : TRUE>>
INSTANCE EventJudge
TraceSpec == JInit /\ orig = NilItem /\ val = NilItem /\ phase = "judge"
             /\ [][(JStep \/ JFinish) /\ UNCHANGED vars]_<<jvars, vars>>
=============================================================================
