------------------------------ MODULE TextTrace ------------------------------
(* Leg V for C06 and C02.  Events:                                                                   *)
(*  {"ev":"text","codec","prop","form","syms":[..],"in":hex,"out":hex,"tagsok":B,"err":S}   (C06: library decode)  *)
(*  {"ev":"emit","pos","syms":[..],"in":hex,"valid":B,"dup":B,"dec":hex,"extra":B,"err":S}  (C02: independent parse) *)
EXTENDS Text, Json, IOUtils
VARIABLES l, bad, done
Tr == ndJsonDeserialize("text_trace.ndjson")
Chunk == 500
Why(ev) ==
  IF ev.ev = "text" THEN
     IF ev.err # "" THEN <<"error">>
     ELSE (IF ev.out = ev.in THEN <<>> ELSE IF ev.out = "" THEN <<"text-lost">> ELSE <<"text-changed">>)
          \o (IF ev.tagsok THEN <<>> ELSE <<"tags-changed">>)
  ELSE IF ev.ev = "emit" THEN
     IF ev.err # "" THEN <<"encode-error">>
     ELSE IF ~ev.valid THEN <<"invalid-json">>
     ELSE (IF ev.dup THEN <<"duplicate-member">> ELSE <<>>)
          \o (IF ev.extra THEN <<"injected-member">> ELSE <<>>)
          \o (IF ev.dec = ev.in THEN <<>> ELSE <<"string-changed">>)
  ELSE <<"unknown-event">>
INSTANCE EventJudge
TraceSpec == JInit /\ held = <<>> /\ wire = <<>> /\ got = <<>> /\ phase = "judge"
             /\ [][(JStep \/ JFinish) /\ UNCHANGED vars]_<<jvars, vars>>
=============================================================================
