------------------------------- MODULE IRIGen -------------------------------
(* Leg G for C14: the grid of IRI presentations with their text and normal   *)
(* forms (the class key, with and without scheme), and the non-URL strings.  *)
EXTENDS IRI, Json, IOUtils, SequencesExt, FiniteSetsExt

CONSTANT Full     \* TRUE: the whole grid; FALSE: the quick sub-grid

P(segs, ts) == [segs |-> segs, ts |-> ts]
GridPathsFull == {P(s, t) : s \in {<<>>, <<"a">>, <<"A">>, <<".", "a">>, <<"b", "..", "a">>, <<"a", "b">>, <<"a", "b", "..">>,
                                  <<"a", "B">>, <<"b">>, <<"a", "inbox">>, <<".">>, <<"a", "..">>}, t \in BOOLEAN}      \* "/." and "/a/.." are the root too
GridPathsQuick == {P(<<>>, FALSE), P(<<>>, TRUE), P(<<"a">>, FALSE), P(<<"A">>, TRUE), P(<<".", "a">>, FALSE),
                   P(<<"b", "..", "a">>, TRUE), P(<<"a", "b">>, FALSE), P(<<"a", "b", "..">>, FALSE), P(<<"a", "B">>, TRUE),
                   P(<<"b">>, FALSE), P(<<".">>, FALSE), P(<<"a", "..">>, TRUE)}
KVr(k, v) == [k |-> k, v |-> v]
Q(raw, ps) == [raw |-> raw, ps |-> ps]
GridQueries == {Q(FALSE, <<>>), Q(TRUE, <<>>), Q(TRUE, <<KVr("x", "1")>>), Q(TRUE, <<KVr("x", "1"), KVr("y", "2")>>),
                Q(TRUE, <<KVr("y", "2"), KVr("x", "1")>>), Q(TRUE, <<KVr("x", "2")>>), Q(TRUE, <<KVr("x", "1"), KVr("x", "1")>>),
                Q(TRUE, <<KVr("x", "1"), KVr("x", "2")>>), Q(TRUE, <<KVr("x", "2"), KVr("x", "1")>>), Q(TRUE, <<KVr("y", "2")>>)}
Grid == IF Full
        THEN [sch : SchemeP, host : HostP, path : GridPathsFull, query : GridQueries, frag : FragP]
        ELSE [sch : {"http", "https", "HTTP"}, host : {"example.com", "EXAMPLE.COM", "www.example.com", "example.com:8080", "[::1]:8080", "[::2]:8080"},
              path : GridPathsQuick, query : GridQueries, frag : {"", "f"}]

\* strings that are not absolute URLs: only reflexivity and symmetry are demanded
NonURL == {"-", "x/a", "X/A", "#f", "mailto:x", "MAILTO:X", "http://", "http:///a", "?x=1", "?X=1", "a b", "/a/b", "/A/B/",
           "example.com/a", "//example.com/a", "urn:isbn:1", "URN:ISBN:1", "http://[::1", "::", "a#b", "A#c", "%zz", "http://%zz/a",
           "/", "//", "http:/a", "https//x", "x://", "X://y", "1", "inbox", "Inbox", "a/../b", "./a", "a?x=1&x=1", "a?x=1&x=2",
           "http://example.com", "HTTP://EXAMPLE.COM/", "https://example.com/a?x=1&x=1", "https://example.com/a?x=1&x=2"}

GenInit == lst = <<>> /\ res = FALSE
GenNext == FALSE /\ UNCHANGED vars
ASSUME ndJsonSerialize("c14_grid.ndjson",
         SetToSeq({[s |-> Str(i), c |-> i, n0 |-> Norm(i, FALSE), n1 |-> Norm(i, TRUE)] : i \in Grid}))
ASSUME ndJsonSerialize("c14_nonurl.ndjson", SetToSeq({[s |-> s] : s \in NonURL}))
=============================================================================
