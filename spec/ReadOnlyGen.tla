---------------------------- MODULE ReadOnlyGen ----------------------------
(* Leg G for C12: the read-only operations of the real library (RealOps), the schedules (assignments of operation pairs to     *)
(* goroutines sharing one value, with goroutines decoding unrelated documents alongside), and the values for the frame check.  *)
EXTENDS Cases, Json, IOUtils, SequencesExt, FiniteSetsExt
RealOps == {"MarshalJSON", "TypeMarshalJSON", "GobEncode", "MarshalBinary", "ItemsEqualSelf", "ItemsEqualCopy", "Format", "Inspect",
            "DerefItem", "OnObject", "OnTyped", "ToObject", "CollectionRead", "CollectionPathOf", "Getters", "NLVRead"}
Roots == {"Object", "Activity", "Actor", "OrderedCollection", "Question", "Place", "CollectionPage", "Link"}
OpList == SetToSeq(RealOps)
Pairs == {<<OpList[i], OpList[j]>> : i \in 1..Len(OpList), j \in 1..Len(OpList)} 
UPairs == {p \in Pairs : \E i, j \in 1..Len(OpList) : i <= j /\ p = <<OpList[i], OpList[j]>>}
Schedules == {[root |-> r, ops |-> p, goroutines |-> n, decoders |-> d] : r \in Roots, p \in UPairs, n \in {4}, d \in {2}}
FrameVals == {c \in OneField(FALSE) : c.lab.g \in Roots} \cup Nested1 \cup Full(FALSE)
ASSUME ndJsonSerialize("c12_sched.ndjson", SetToSeq(Schedules))
ASSUME ndJsonSerialize("c12_vals.ndjson", SetToSeq(FrameVals))
ASSUME ndJsonSerialize("c12_ops.ndjson", <<[ops |-> OpList]>>)
=============================================================================
