---------------------------- MODULE ReadOnlyGen ----------------------------
(* Leg G for C12: the read-only operations of the real library (RealOps), the schedules (assignments of operation pairs to     *)
(* goroutines sharing one value, with goroutines decoding unrelated documents alongside), and the values for the frame check.  *)
EXTENDS Cases, Json, IOUtils, SequencesExt, FiniteSetsExt
RealOps == {"MarshalJSON", "TypeMarshalJSON", "GobEncode", "MarshalBinary", "ItemsEqualSelf", "ItemsEqualCopy", "Format", "Inspect",
            "DerefItem", "OnObject", "OnTyped", "ToObject", "CollectionRead", "CollectionPathOf", "Getters", "NLVRead"}
Roots == {"Object", "Activity", "Actor", "OrderedCollection", "Question", "Place", "CollectionPage", "Link"}
OpList == SetToSeq(RealOps)
Pairs == {<<OpList[i], OpList[j]>> : i \in 1..Len(OpList), j \in 1..Len(OpList)} 
UPairs == {p \in Pairs : \E i, j \in 1..Len(OpList) : i <= j /\ p = <<OpList[i], OpList[j]>>}
Schedules == {[root |-> r, ops |-> p, goroutines |-> n, decoders |-> d] : r \in Roots, p \in UPairs, n \in {4}, d \in {2}}
\* lists holding nil and typed-nil members between real ones (an encoder that compacts "in place" writes the caller's array)
TNil(g) == [k |-> "nil", as |-> g]
NilLists == {<<"nil-mid", ListOf(<<I1, NilItem, I2>>)>>, <<"tnil-first", ListOf(<<TNil("Object"), Note1, I2>>)>>,
             <<"nils-then-object", ListOf(<<NilItem, TNil("Activity"), Person1>>)>>}
NilMembers == UNION {{Case("nil-member", g, t, sh[1], With(BaseV(g, 3), t, sh[2])) :
                        sh \in NilLists, t \in {u \in {"to", "tag", "object", "items", "orderedItems"} : u \in Terms(Props(g))}} :
                      g \in {"Object", "Activity", "OrderedCollection", "Collection"}}
              \cup {Case("nil-member", "list", "top", sh[1], sh[2]) : sh \in NilLists}
FrameVals == {c \in OneField(FALSE) : c.lab.g \in Roots} \cup Nested1 \cup Full(FALSE) \cup NilMembers
ASSUME ndJsonSerialize("c12_sched.ndjson", SetToSeq(Schedules))
ASSUME ndJsonSerialize("c12_vals.ndjson", SetToSeq(FrameVals))
ASSUME ndJsonSerialize("c12_ops.ndjson", <<[ops |-> OpList]>>)
=============================================================================
