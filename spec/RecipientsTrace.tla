-------------------------- MODULE RecipientsTrace --------------------------
(* Leg V for C10.  Events: {"ev":"rcpt","gotype":..,"pre":value,"post":[to,cc,bto,bcc,aud],"ret":[who..]} *)
(* recorded from the real Recipients() of every addressable Go type.          *)
EXTENDS Recipients, Json, IOUtils

VARIABLES l, bad, done
Tr == ndJsonDeserialize("c10_trace.ndjson")
Chunk == 300

WhoSeq(s) == [i \in 1..Len(s) |-> s[i].w]
Why(ev) ==
  IF ev.ev # "rcpt" THEN <<"unknown-event">>
  ELSE IF ev.panic THEN <<"panic">>
  ELSE LET o == Outcome(ev.pre)
           blocked == IF ev.pre.class = "block" /\ ~IsNilE(ev.pre.object) THEN {ev.pre.object.w} ELSE {}
           lst(name, got, want) == IF got = want THEN <<>>
                                   ELSE IF Len(got) > Len(want) THEN <<name \o "-keeps-repeat">>
                                   ELSE IF Len(got) < Len(want) THEN <<name \o "-loses-entry">>
                                   ELSE <<name \o "-wrong-entry">>
       IN (IF ev.ret = o.ret THEN <<>>
           ELSE IF {ev.ret[i] : i \in 1..Len(ev.ret)} = {o.ret[i] : i \in 1..Len(o.ret)} /\ Len(ev.ret) = Len(o.ret) THEN <<"ret-order">>
           ELSE IF Len(ev.ret) > Len(o.ret) THEN <<"ret-extra">> ELSE <<"ret-missing">>)
          \o lst("to", ev.post.to, o.to) \o lst("cc", ev.post.cc, o.cc)
          \o lst("bto", ev.post.bto, o.bto) \o lst("bcc", ev.post.bcc, o.bcc)
          \o (IF Whos(ev.post.aud) \cap blocked = {} THEN <<>> ELSE <<"blocked-in-audience">>)

INSTANCE EventJudge
TraceSpec == JInit /\ st = [class |-> "plain"] /\ ret = <<>> /\ phase = "judge" /\ st0 = <<>>
             /\ [][(JStep \/ JFinish) /\ UNCHANGED hvars]_<<jvars, hvars>>
=============================================================================
